#!/usr/bin/env python3
"""Reads evidence/*.json and records harness instances that are too slow for the every-change tier
(> THRESH s of CBMC time) in tuning.json; harnesses.select() keeps them for the thorough tier only,
unless that would leave a harness *role* without any quick instance."""
import glob, json, sys
from pathlib import Path
V = Path(__file__).resolve().parent
THRESH = float(sys.argv[1]) if len(sys.argv) > 1 and not sys.argv[1].startswith("-") else 120.0
p = V / "tuning.json"
fresh = "--fresh" in sys.argv   # start from nothing and use only the measurement run (.work/measure)
t = json.loads(p.read_text()) if p.exists() and not fresh else {"slow": {}}
files = ([] if fresh else glob.glob(str(V / "evidence" / "*.json"))) + glob.glob(str(V / ".work" / "measure" / "*" / "*.json"))
for f in files:
    d = json.load(open(f))
    for h in d["coverage"].get("harnesses", []):
        if h["time_s"] > THRESH or h["verdict"] == "inconclusive":
            t["slow"][h["harness"]] = max(t["slow"].get(h["harness"], 0), h["time_s"])
p.write_text(json.dumps(t, indent=1, sort_keys=True))
print(len(t["slow"]), "slow harness instances recorded")
