#!/bin/bash
# usage: seedcheck.sh <ID> [extra cargo test args for the demo]
# confirms a seeded change in its scratch worktree /tmp/seed/wt_<ID> with /tmp/seed/out_<ID>/{patch.diff,demo.rs}
id=$1; shift; extra="$@"; wt=/tmp/seed/wt_$id; out=/tmp/seed/out_$id
cd $wt || exit 2
git checkout -q -- . ; rm -f tests/seed_demo.rs
git apply $out/patch.diff || { echo "PATCH-DOES-NOT-APPLY"; exit 2; }
r1=$(cargo test --offline 2>&1 | grep -E "^test result" | awk '{s+=$4; f+=$6} END{print s " passed " f " failed"}')
cp $out/demo.rs tests/seed_demo.rs
r2=$(cargo test --offline $extra --test seed_demo 2>&1 | grep -E "^test result|^error" | head -2 | tr '\n' ' ')
git apply -R $out/patch.diff
r3=$(cargo test --offline $extra --test seed_demo 2>&1 | grep -E "^test result|^error" | head -2 | tr '\n' ' ')
git apply $out/patch.diff
rm -f tests/seed_demo.rs
echo "$id | with patch, existing suite: $r1 | with patch, demo: $r2 | without patch, demo: $r3"
