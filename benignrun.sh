#!/bin/bash
# usage: benignrun.sh <id> <PROP> [<PROP>...]  - applies a behaviour-preserving refactoring (benign/<id>/patch.diff) to /repo,
# runs the quick checks (they must exit 0: no alarm on code where the property holds), reverts.
id=$1; shift
cd /verif
git -C /repo diff --quiet || { echo "/repo has uncommitted changes"; exit 2; }
git -C /repo apply /verif/benign/$id/patch.diff || { echo "patch does not apply"; exit 2; }
mkdir -p .work/benignruns
for p in "$@"; do
  VERIF_EVIDENCE_DIR=/verif/.work/benignruns/ev_$id python3 run.py $p --tier quick --max-replays 1 > .work/benignruns/${id}_$p.out 2>&1
  rc=$?
  echo "$id $p exit=$rc $(tail -1 .work/benignruns/${id}_$p.out | cut -c1-150)"
done
git -C /repo checkout -- .
