"""Harness table: which generic harness bodies (kani/src/c*.rs) are instantiated for which
<constraint set, backend, element type, dimensions>, for which property and tier.
Names encode every parameter, so a name identifies one solver query."""
import hashlib
import importlib
import os

# name: (size, align, tracked(drop glue + registry), class)
ELEMS = {
    "Z0": (0, 1, False, "S"), "Z0D": (0, 1, False, "S"),
    "B1": (1, 1, False, "S"), "H2": (2, 2, False, "S"), "B3D": (3, 1, True, "S"),
    "F4": (4, 1, False, "S"), "P8D": (8, 2, True, "S"),
    "W8": (8, 8, False, "S"), "W8D": (8, 8, True, "S"),
    "T12": (12, 4, False, "M"), "Q16": (16, 16, False, "M"), "D24D": (24, 8, True, "M"),
    "A32": (32, 32, False, "L"), "A64": (64, 64, False, "L"), "L160D": (160, 8, True, "L"),
}
TR = {
    "none": "dyn None", "clone": "dyn Cloneable", "send": "dyn Send", "sync": "dyn Sync",
    "sendsync": "dyn Send + Sync", "csend": "dyn Cloneable + Send", "csync": "dyn Cloneable + Sync",
    "call": "dyn Cloneable + Send + Sync",
}
CLONEABLE = ("clone", "csend", "csync", "call")

COMMON_ASSUMPTIONS = [
    "Kani 0.68 / CBMC 6.11 (cadical) semantics of the dev profile: overflow checks on, core ub_checks on, no unwinding (a panic ends the path)",
    "core::panicking::assert_failed is stubbed (ends in an expected-panic check after running the harness's rejection inspector)",
    "bounded: lengths/capacities/indices only up to the per-harness bounds recorded under coverage.harnesses[].dims; unwinding assertions are on",
    "generic code is verified per listed instantiation (constraint set x backend x element type)",
    "CBMC pointer model: each allocation is its own object; pointer->integer casts treat object bases as maximally aligned",
    "heap capacities are concrete per query (enumerated by the driver), lengths/indices/payloads are symbolic",
    "Kani's per-assertion reachability checks are off (--no-assertion-reach-checks); non-vacuity is decided per harness by its REACHED-END cover (must be SATISFIED) or, for must-panic harnesses, by the expected panic being reachable",
]


KANI_BOUNDS = ("lengths/capacities/indices <= 3 (quick) / 4-5 (thorough) with the shape symbolic for element sizes <= 8 bytes and enumerated for larger ones; "
               "replacement lengths <= 2-3; element layouts {0,1,2,3,4,8,12,16,24,32,64,160 bytes; align 1..64 (incl. power-of-two sizes larger than the alignment); with/without drop glue}; backends Heap, Stack, StackN, user-defined relocating Reloc / RelocK<1> (non-zero initial capacity); "
               "constraint sets none / Cloneable / Send / Sync / Cloneable+Send+Sync. Everything larger is outside the claim.")
PROP_META = {
    "C01": dict(bounds=KANI_BOUNDS, explanation="one operation instance from an arbitrary valid state vs a Vec reference model; post-state re-checked to be a valid state (inductive step)",
                assumptions=["'leaves the vector unchanged' after an out-of-range panic is observed only in native replay (a panic ends the path under Kani); index_check / get bounds also discharged over the full usize range by the MIR->SMT engine"]),
    "C02": dict(bounds=KANI_BOUNDS + " MIR->SMT: into_range over the full 64-bit range for arbitrary Bound results, both overflow-check modes.",
                explanation="drain/splice from an arbitrary state for every range, RangeBounds form, replacement and front/back consumption; invalid ranges must panic in into_range",
                assumptions=["splice on resizable storage: (len, range, replacement length) concrete per query, enumerated by the driver (a symbolic allocation size does not finish); symbolic on fixed-capacity storage"]),
    "C03": dict(bounds=KANI_BOUNDS + " Three-vector chains: concrete shapes, 2-3 steps, symbolic payloads.", explanation="identity registry (live/drops per element id) updated by the elements' own Drop/Clone; visibility == liveness <= 1 for an arbitrary id",
                assumptions=["two-vector exchange kinds are decided from arbitrary states (symbolic), three-vector chains for enumerated concrete shapes only"]),
    "C04": dict(bounds=KANI_BOUNDS, explanation="mismatched offers must end in the type-check panic (assert_failed stub runs the 'state at rejection' inspector); downcasts succeed iff the type is the real one",
                assumptions=["'the rejected value is dropped once' happens during unwinding: checked in native replay only"]),
    "C05": dict(bounds=KANI_BOUNDS, explanation="C01/C02/C08/C10 harness bodies on the relocating user backend and on Heap (Kani's realloc always relocates): CBMC pointer checks + core ub_checks are the oracle",
                assumptions=["uninitialised reads are detected only when they influence an observable value", "no borrow-tag (Stacked/Tree Borrows) model"]),
    "C06": dict(bounds=KANI_BOUNDS + " Fault point: 1..=5-7 (symbolic); misreported len: -2..=+2.", explanation="at the k-th user-code invocation (k symbolic) every vector is inspected at that instant, then the path ends; native replay really panics and unwinds",
                assumptions=["what a real unwind does after the fault point (drop glue of locals) is not modelled by Kani; it is exercised by the native replay of any counterexample"]),
    "C07": dict(bounds=KANI_BOUNDS, explanation="forget the handle / iterator at every stage, then validity predicate + further use + drop (leaks allowed, double destruction not)", assumptions=[]),
    "C08": dict(bounds=KANI_BOUNDS, explanation="clone from every state: per-id clone counters, storage disjointness, independence under one further operation; clone_empty(_in) across backends",
                assumptions=["on resizable storage the cloned length is concrete per query (enumerated)"]),
    "C09": dict(bounds=KANI_BOUNDS + " chain depth 1..3, consumptions 0..3.", explanation="clone / drop counters around creation, copy, drop and each consumption of lazy clones", assumptions=[]),
    "C10": dict(bounds=KANI_BOUNDS + " MIR->SMT: reserve / reserve_exact / shrink_to / shrink_to_fit / HeapMem::expand / HeapMem::resize over the full 64-bit range, both overflow-check modes.",
                explanation="capacity calls from every (len, capacity) state with symbolic argument; allocator events via logging stubs; arithmetic kernels over all 64-bit values",
                assumptions=["amortisation: 'each growth at least doubles capacity' is solver-checked (Kani for small states, MIR->SMT for every 64-bit capacity); 'therefore logarithmically many reallocations' is the usual induction, not a solver result; push runs of 2^16 are not executed",
                             "HeapMem::expand is checked under its callers' contract size + additional <= usize::MAX"]),
    "C11": dict(bounds=KANI_BOUNDS + " const-generic grid around multiples of the element size (listed per harness). MIR->SMT: Stack::build / StackN::build with SIZE, N, element size free 64-bit variables.",
                explanation="capacity grid, capacity+1 must panic, all stack harnesses with allocator stubs that fail on any heap request", assumptions=[]),
    "C12": dict(bounds=KANI_BOUNDS + " MIR->SMT byte-view kernels: element size <= 2^20, capacity <= 2^40.", explanation="vector placed at a symbolic admissible offset in a 64-aligned arena; pointer/length identities of every view; spare capacity write + set_len",
                assumptions=["CBMC treats every object base as maximally aligned: alignment is claimed only relative to the 64-aligned arena (inline storage) and for the dangling pointer of empty storage"]),
    "C13": dict(bounds=KANI_BOUNDS, explanation="accessor i addresses exactly base + i*size and reports true type/size/bytes; write through one view kind, read through another; swap for every handle pairing", assumptions=[]),
    "C14": dict(bounds=KANI_BOUNDS + " L+2 calls, each a symbolic next/next_back choice (all interleavings in one query).", explanation="size_hint/len exact at every step, front ascending / back descending, fused, clone independent; cursor arithmetic also via MIR->SMT", assumptions=[]),
    "C15": dict(level="other", bounds="8 constraint sets (enumerated) x free boolean flags for backend / element / replacement iterator; all public handle types listed in the evidence",
                explanation="trait-clause encoding: explicit impl headers and struct field types from rustdoc JSON become boolean formulas over configuration flags; z3 searches for a configuration contradicting the property. "
                            "Weaker than executing code: the auto-trait derivation and impl matching are this checker's model of the compiler; the model is compared with rustc on 480 concrete facts every run and a sat model is a concrete configuration.",
                assumptions=["auto-trait rules and impl matching as rendered in traitsmt/check.py (no overlapping or negative impls in the crate; unknown external type constructors make the run inconclusive)",
                             "typed views are compared with a vector whose capabilities are exactly those of T, M, M::Mem"]),
    "C17": dict(bounds=KANI_BOUNDS, explanation="into_raw_parts / RawParts::clone / from_raw_parts round trips (once, twice) then one further operation; allocator events via logging stubs; Empty backend", assumptions=[]),
    "C18": dict(bounds=KANI_BOUNDS + " MIR->SMT: HeapMem::resize as one inductive step over all 64-bit (size, element layout, new_size) satisfying the representation invariant.",
                explanation="logging allocator stubs assert layout validity and consistency at every alloc/realloc/dealloc; capacity requests over the full usize range must panic or present a valid layout",
                assumptions=["requests above 4096 bytes are validity-checked by the stub and then the path ends (nothing is allocated)"]),
    "C19": dict(bounds=KANI_BOUNDS, explanation="the same stack-backend harness bodies compiled against any_vec with default features and with --no-default-features; side checks: the no-default-features MIR contains no path into the alloc crate and no heap module",
                assumptions=["'compiles without the alloc crate' is established by building (Kani's compile) and a syntactic scan of the MIR dump, not by the solver"]),
}
_ENTRIES = []
_BYNAME = {}


def bk(b, elem, cap):
    size = ELEMS[elem][0]
    if b == "heap":
        return "Heap"
    if b == "reloc":
        return "Reloc"
    if b == "reloc1":   # user-defined backend whose build() already hands out room for one element
        return "RelocK<1>"
    if b == "stack":
        return "Stack<%d>" % (cap * size)
    if b == "stackn":
        return "StackN<%d, %d>" % (cap, cap * size)
    raise KeyError(b)


def dim(x):
    """'s3' -> Sym(3), 3 -> Fix(3)"""
    if isinstance(x, str):
        return "Sym(%d)" % int(x[1:])
    return "Fix(%d)" % x


def dmax(x):
    return int(x[1:]) if isinstance(x, str) else x


def P(cap=3, len="s3", idx="s3", cap2=2, len2="s2", idx2="s2"):
    return "c01::P { cap: %s, len: %s, idx: %s, cap2: %s, len2: %s, idx2: %s }" % tuple(dim(v) for v in (cap, len, idx, cap2, len2, idx2))


def unwind_for(elem, L, bytepath=True, floor=12):
    size = ELEMS[elem][0]
    n = size * L
    if n >= 128:
        n = 127
    floor = max(floor, size + 2)   # element constructors fill `size-2` canary bytes in a loop
    return max(floor, (n + 2) if bytepath else floor)


def H(name, call, props, tier="quick", unwind=12, expect=(), must_panic=False, dims=None, stubs=(), role=None, noalloc=False):
    e = dict(name=name, call=call, props=list(props), tier=tier, unwind=unwind, expect=list(expect), must_panic=must_panic,
             dims=dims or {}, stubs=list(stubs), role=role or name, noalloc=noalloc)
    old = _BYNAME.get(name)
    if old is not None:
        # same instance requested twice (e.g. quick core and thorough cross product): keep the earlier tier
        for p in e["props"]:
            if p not in old["props"]:
                old["props"].append(p)
        return old
    _BYNAME[name] = e
    _ENTRIES.append(e)
    return e


# expected-panic patterns (function regex, description regex). Kani reports the message of
# `assert!(cond, "literal")` in a dependency as a placeholder, so the function is what identifies it.
X_INDEX = {"fn": r"AnyVecRaw::<.*>::index_check", "desc": r"placeholder message|Index out of range"}
X_INSERT = {"fn": r"AnyVecRaw::<.*>::insert_unchecked", "desc": r"placeholder message|Index out of range"}
X_UNWRAP = {"fn": r"option::unwrap_failed|Option::<.*>::unwrap", "desc": r"."}
X_TYPE = {"fn": r"assert_failed", "desc": r"VP-EXPECTED: type mismatch"}
X_CAP = {"fn": r"Mem>?::expand|mem::Mem::expand", "desc": r"placeholder message|Can't change capacity"}
X_RANGE = {"fn": r"any_vec::into_range|option::expect_failed|Option::<usize>::expect", "desc": r"assertion failed|overflow|placeholder|maximum usize"}
X_STACKN = {"fn": r"StackN<.*> as .*MemBuilder>::build|StackN::<.*>::build", "desc": r"placeholder message|Insufficient storage"}


def tn(t):
    return t


def all_entries():
    _load()
    return list(_ENTRIES)


_loaded = False


def _load():
    global _loaded
    if _loaded:
        return
    _loaded = True
    for mod in ("ht_c01",):
        importlib.import_module(mod).define()
    for extra in ("ht_c02", "ht_c03", "ht_c04", "ht_c06", "ht_c07", "ht_c08", "ht_c09", "ht_c10", "ht_c12", "ht_c13", "ht_c14", "ht_c17", "ht_c18", "ht_c11", "ht_c19"):
        p = os.path.join(os.path.dirname(__file__), extra + ".py")
        if os.path.exists(p):
            importlib.import_module(extra).define()
    names = [e["name"] for e in _ENTRIES]
    dup = set(n for n in names if names.count(n) > 1)
    assert not dup, "duplicate harness names: %s" % sorted(dup)[:5]


def all_entries_named(prefixes):
    return [e for e in _ENTRIES if any(e["name"].startswith(p) for p in prefixes)]


def rot_pick(name, seed, mod):
    h = int(hashlib.sha1(name.encode()).hexdigest()[:8], 16)
    return (h % mod) == (seed % mod)


def _slow():
    p = os.path.join(os.path.dirname(__file__), "tuning.json")
    if os.path.exists(p):
        import json
        return json.load(open(p)).get("slow", {})
    return {}


def select(prop, tier, seed):
    """quick: tier 'quick' entries + a seeded 1/ROT rotation of 'rot' entries, minus instances measured too slow
    for the every-change tier (tuning.json) unless their role would be left without a quick instance;
    thorough: everything."""
    _load()
    if tier == "rotall":
        # measurement mode: every instance that any seed could put into the quick tier
        if prop == "ALL":
            return _select(prop, tier, seed)
        return [e for e in _select(prop, "thorough", seed) if e.get("prop_tier", {}).get(prop, e["tier"]) != "thorough"]
    out = _select(prop, tier, seed)
    if tier == "thorough":
        # thorough_verified.json (mkthorough.py): the thorough-only instances that have been run to a conclusive pass
        # on the repaired tree at least once; instances that were never run in the time available are not registered
        # (an unexercised check is a liability, not coverage). No file = everything.
        ver = _verified()
        if ver is None:
            return out
        if prop == "ALLT":
            skip = set()
            if os.environ.get("VERIF_SKIP_NOT_VERIFIED"):
                import json
                from pathlib import Path
                skip = set(json.loads((Path(__file__).resolve().parent / "thorough_verified.json").read_text()).get("not_verified", {}))
            return [e for e in out if e["name"] not in ver and e["name"] not in skip]   # what is still to be measured
        return [e for e in out if e.get("prop_tier", {}).get(prop, e["tier"]) != "thorough" or e["name"] in ver]
    slow = _slow()
    fast_roles = set(e["role"] for e in out if e["name"] not in slow)
    keep = []
    kept_slow_role = set()
    for e in out:
        if e["name"] not in slow:
            keep.append(e)
        elif e["role"] not in fast_roles and e["role"] not in kept_slow_role:
            kept_slow_role.add(e["role"])
            keep.append(e)
    return keep


_VER = [False, None]


def _verified():
    if not _VER[0]:
        import json
        from pathlib import Path
        p = Path(__file__).resolve().parent / "thorough_verified.json"
        _VER[0] = True
        if p.exists() and not os.environ.get("VERIF_THOROUGH_ALL"):
            _VER[1] = set(json.loads(p.read_text())["verified"])
    return _VER[1]


def _select(prop, tier, seed):
    out = []
    for e in _ENTRIES:
        if prop == "ALLT":
            # measurement pseudo-property: every thorough-only instance
            if tier == "thorough" and all(e.get("prop_tier", {}).get(q, e["tier"]) == "thorough" for q in e["props"]):
                out.append(e)
            continue
        if prop == "ALL":
            # measurement pseudo-property: every instance that belongs to some property's quick/rotation pool
            if all(e.get("prop_tier", {}).get(q, e["tier"]) == "thorough" for q in e["props"]):
                continue
            if tier != "rotall":
                continue
            out.append(e)
            continue
        if prop not in e["props"]:
            continue
        t = e.get("prop_tier", {}).get(prop, e["tier"])
        if tier == "thorough" or t == "quick":
            out.append(e)
        elif t.startswith("rot"):
            mod = int(t[3:] or 8)
            if rot_pick(e.get("rot_key", e["name"]), seed, mod):
                out.append(e)
    return out


def extra_parts(prop, tier, seed):
    """MIR->SMT / trait-clause engine parts registered for the property (callables)."""
    parts = []
    try:
        import mirsmt.obligations as MO
        parts += MO.parts_for(prop)
    except ImportError:
        pass
    try:
        import traitsmt.check as TC
        parts += TC.parts_for(prop)
    except ImportError:
        pass
    return parts
