"""Harness table: which generic harness bodies (kani/src/c*.rs) are instantiated for which
<constraint set, backend, element type, dimensions>, for which property and tier.
Names encode every parameter, so a name identifies one solver query."""
import hashlib
import importlib
import os

# name: (size, align, tracked(drop glue + registry), class)
ELEMS = {
    "Z0": (0, 1, False, "S"), "Z0D": (0, 1, False, "S"),
    "B1": (1, 1, False, "S"), "H2": (2, 2, False, "S"), "B3D": (3, 1, True, "S"),
    "W8": (8, 8, False, "S"), "W8D": (8, 8, True, "S"),
    "T12": (12, 4, False, "M"), "Q16": (16, 16, False, "M"), "D24D": (24, 8, True, "M"),
    "A32": (32, 32, False, "L"), "A64": (64, 64, False, "L"), "L160D": (160, 8, True, "L"),
}
TR = {
    "none": "dyn None", "clone": "dyn Cloneable", "send": "dyn Send", "sync": "dyn Sync",
    "sendsync": "dyn Send + Sync", "csend": "dyn Cloneable + Send", "csync": "dyn Cloneable + Sync",
    "call": "dyn Cloneable + Send + Sync",
}
CLONEABLE = ("clone", "csend", "csync", "call")

COMMON_ASSUMPTIONS = [
    "Kani 0.68 / CBMC 6.11 (cadical) semantics of the dev profile: overflow checks on, core ub_checks on, no unwinding (a panic ends the path)",
    "core::panicking::assert_failed is stubbed (ends in an expected-panic check after running the harness's rejection inspector)",
    "bounded: lengths/capacities/indices only up to the per-harness bounds recorded under coverage.harnesses[].dims; unwinding assertions are on",
    "generic code is verified per listed instantiation (constraint set x backend x element type)",
    "CBMC pointer model: each allocation is its own object; pointer->integer casts treat object bases as maximally aligned",
    "heap capacities are concrete per query (enumerated by the driver), lengths/indices/payloads are symbolic",
]

PROP_META = {}
_ENTRIES = []
_BYNAME = {}


def bk(b, elem, cap):
    size = ELEMS[elem][0]
    if b == "heap":
        return "Heap"
    if b == "reloc":
        return "Reloc"
    if b == "stack":
        return "Stack<%d>" % (cap * size)
    if b == "stackn":
        return "StackN<%d, %d>" % (cap, cap * size)
    raise KeyError(b)


def dim(x):
    """'s3' -> Sym(3), 3 -> Fix(3)"""
    if isinstance(x, str):
        return "Sym(%d)" % int(x[1:])
    return "Fix(%d)" % x


def dmax(x):
    return int(x[1:]) if isinstance(x, str) else x


def P(cap=3, len="s3", idx="s3", cap2=2, len2="s2", idx2="s2"):
    return "c01::P { cap: %s, len: %s, idx: %s, cap2: %s, len2: %s, idx2: %s }" % tuple(dim(v) for v in (cap, len, idx, cap2, len2, idx2))


def unwind_for(elem, L, bytepath=True, floor=12):
    size = ELEMS[elem][0]
    n = size * L
    if n >= 128:
        n = 127
    floor = max(floor, size + 2)   # element constructors fill `size-2` canary bytes in a loop
    return max(floor, (n + 2) if bytepath else floor)


def H(name, call, props, tier="quick", unwind=12, expect=(), must_panic=False, dims=None, stubs=(), role=None, noalloc=False):
    e = dict(name=name, call=call, props=list(props), tier=tier, unwind=unwind, expect=list(expect), must_panic=must_panic,
             dims=dims or {}, stubs=list(stubs), role=role or name, noalloc=noalloc)
    old = _BYNAME.get(name)
    if old is not None:
        # same instance requested twice (e.g. quick core and thorough cross product): keep the earlier tier
        for p in e["props"]:
            if p not in old["props"]:
                old["props"].append(p)
        return old
    _BYNAME[name] = e
    _ENTRIES.append(e)
    return e


# expected-panic patterns (function regex, description regex). Kani reports the message of
# `assert!(cond, "literal")` in a dependency as a placeholder, so the function is what identifies it.
X_INDEX = {"fn": r"AnyVecRaw::<.*>::index_check", "desc": r"placeholder message|Index out of range"}
X_INSERT = {"fn": r"AnyVecRaw::<.*>::insert_unchecked", "desc": r"placeholder message|Index out of range"}
X_UNWRAP = {"fn": r"option::unwrap_failed|Option::<.*>::unwrap", "desc": r"."}
X_TYPE = {"fn": r"stubs::assert_failed_stub", "desc": r"VP-EXPECTED: type mismatch"}
X_CAP = {"fn": r"Mem>?::expand|mem::Mem::expand", "desc": r"placeholder message|Can't change capacity"}
X_RANGE = {"fn": r"any_vec::into_range|option::expect_failed|Option::<usize>::expect", "desc": r"assertion failed|overflow|placeholder|maximum usize"}
X_STACKN = {"fn": r"StackN::<.*>::build|stack_n", "desc": r"placeholder message|Insufficient storage"}


def tn(t):
    return t


def all_entries():
    _load()
    return list(_ENTRIES)


_loaded = False


def _load():
    global _loaded
    if _loaded:
        return
    _loaded = True
    for mod in ("ht_c01",):
        importlib.import_module(mod).define()
    for extra in ("ht_c02", "ht_c03", "ht_c04", "ht_c06", "ht_c07", "ht_c08", "ht_c09", "ht_c10", "ht_c12", "ht_c13", "ht_c14", "ht_c17", "ht_c18", "ht_c11", "ht_c19"):
        p = os.path.join(os.path.dirname(__file__), extra + ".py")
        if os.path.exists(p):
            importlib.import_module(extra).define()
    names = [e["name"] for e in _ENTRIES]
    dup = set(n for n in names if names.count(n) > 1)
    assert not dup, "duplicate harness names: %s" % sorted(dup)[:5]


def all_entries_named(prefixes):
    return [e for e in _ENTRIES if any(e["name"].startswith(p) for p in prefixes)]


def rot_pick(name, seed, mod):
    h = int(hashlib.sha1(name.encode()).hexdigest()[:8], 16)
    return (h % mod) == (seed % mod)


def select(prop, tier, seed):
    """quick: tier 'quick' entries + a seeded 1/ROT rotation of 'rot' entries; thorough: everything."""
    _load()
    out = []
    for e in _ENTRIES:
        if prop not in e["props"]:
            continue
        t = e.get("prop_tier", {}).get(prop, e["tier"])
        if tier == "thorough" or t == "quick":
            out.append(e)
        elif t.startswith("rot"):
            mod = int(t[3:] or 8)
            if rot_pick(e.get("rot_key", e["name"]), seed, mod):
                out.append(e)
    return out


def extra_parts(prop, tier, seed):
    """MIR->SMT / trait-clause engine parts registered for the property (callables)."""
    parts = []
    try:
        import mirsmt.obligations as MO
        parts += MO.parts_for(prop)
    except ImportError:
        pass
    try:
        import traitsmt.check as TC
        parts += TC.parts_for(prop)
    except ImportError:
        pass
    return parts
