"""C12 (views / alignment), C13 (handles / coherence), C14 (iterator protocol) harness instances."""
from harnesses import *  # noqa
from ht_c01 import P
from ht_c02 import P2


def views(via, tr, b, elem, capv=2, tier="quick", off=0):
    name = "c12_views_%s__%s_%s_%s__c%d_o%d" % (via.lower(), tr, b, elem, capv, off)
    call = "c12::views_h::<%s, %s, %s>(%s, c12::SpareVia::%s)" % (TR[tr], bk(b, elem, capv), elem, P(capv, "s%d" % capv, 0, 0, 0, off), via)
    H(name, call, ["C12"], tier=tier, unwind=unwind_for(elem, capv + 2, False), dims=dict(cap=capv, spare_write=via, elem=elem, align=ELEMS[elem][1], backend=b, traits=tr, placement="offset %d x align_of(vector) in a 64-aligned arena" % off, shape_symbolic=True),
      role="c12_views_%s_%s" % (b, "hi" if ELEMS[elem][1] > 8 else "lo"))


def aligned_use(tr, b, elem, capv=2, tier="quick", off=0):
    name = "c12_aligneduse__%s_%s_%s__c%d_o%d" % (tr, b, elem, capv, off)
    call = "c12::aligned_use_h::<%s, %s, %s>(%s)" % (TR[tr], bk(b, elem, capv), elem, P(capv, "s%d" % (capv - 1), 0, 0, 0, off))
    H(name, call, ["C12"], tier=tier, unwind=unwind_for(elem, capv + 2, False), dims=dict(cap=capv, elem=elem, align=ELEMS[elem][1], backend=b, traits=tr, placement="offset %d x align_of(vector) in a 64-aligned arena" % off, shape_symbolic=True),
      role="c12_aligneduse_%s_%s" % (b, "hi" if ELEMS[elem][1] > 8 else "lo"))


def handle(acc, tr, b, elem, L=3, tier="quick"):
    name = "c13_handle_%s__%s_%s_%s__L%d" % (acc.lower(), tr, b, elem, L)
    call = "c12::handle_h::<%s, %s, %s>(%s, c12::Acc::%s)" % (TR[tr], bk(b, elem, L), elem, P(L, "s%d" % L, "s%d" % L), acc)
    H(name, call, ["C13"], tier=tier, unwind=unwind_for(elem, L + 1, False), dims=dict(L=L, accessor=acc, elem=elem, backend=b, traits=tr, shape_symbolic=True), role="c13_handle_%s" % acc.lower())


def coh(w, r, tr, b, elem, L=3, tier="quick"):
    name = "c13_coh_%s_%s__%s_%s_%s__L%d" % (w.lower(), r.lower(), tr, b, elem, L)
    call = "c12::coherence_h::<%s, %s, %s>(%s, c12::Wr::%s, c12::Rd::%s)" % (TR[tr], bk(b, elem, L), elem, P(L, "s%d" % L, "s%d" % L), w, r)
    H(name, call, ["C13"], tier=tier, unwind=unwind_for(elem, L + 1, False), dims=dict(L=L, writer=w, reader=r, elem=elem, backend=b, traits=tr, shape_symbolic=True), role="c13_coh_%s" % w.lower())


def itp(which, tr, b, elem, L=3, tier="quick"):
    name = "c14_iter_%s__%s_%s_%s__L%d" % (which.lower(), tr, b, elem, L)
    call = "c12::iter_h::<%s, %s, %s>(%s, c12::It::%s, %d)" % (TR[tr], bk(b, elem, L), elem, P2(L, "s%d" % L, "s%d" % L, "s%d" % L, 0, 0), which, L + 2)
    H(name, call, ["C14"], tier=tier, unwind=unwind_for(elem, L + 3, False), dims=dict(L=L, iterator=which, calls=L + 2, interleavings="all 2^(L+2) next/next_back choice strings in one query", elem=elem, backend=b, traits=tr, shape_symbolic=True), role="c14_iter_%s" % which.lower())


ACCS = ["Get", "At", "GetMut", "AtMut", "IterNth", "IterMutNth", "TGet", "TAt", "TGetMut", "TAtMut", "TIterNth"]
WRS = ["ElemMutDowncast", "ElemMutBytes", "TypedAtMut", "TypedSlice", "TypedIterMut", "VecBytes", "IterMutDowncast"]
RDS = ["ElemRef", "ElemRefBytes", "TypedSlice", "VecBytes", "Iter"]
ITS = ["Iter", "IterMut", "Drain", "Splice", "TIter", "TIterMut", "TDrain", "TSplice"]


def define():
    # C12 quick: every backend, alignments 1..64, sizes 1/3, ZST; inline (stack) storage at several placements
    views("None", "none", "heap", "B3D")
    views("TypedSpare", "none", "heap", "W8D")
    views("ByteSpare", "none", "heap", "B1")
    views("ByteSpare", "none", "reloc", "T12")
    views("None", "none", "heap", "Q16", capv=0)
    views("TypedSpare", "none", "heap", "A64")
    views("None", "none", "heap", "Z0D")
    for off in (0, 1, 3):
        views("ByteSpare", "none", "stack", "W8", off=off, tier="quick" if off != 3 else "rot2")
        views("TypedSpare", "none", "stack", "B3D", off=off, tier="quick" if off == 1 else "rot2")
        views("None", "none", "stackn", "H2", off=off, tier="quick" if off == 0 else "rot2")
        views("None", "none", "stack", "Q16", off=off, tier="quick" if off != 3 else "rot2")
        views("None", "none", "stack", "A32", off=off, tier="rot2")
        views("None", "none", "stackn", "A64", off=off, tier="rot2")
        # typed writes into inline storage of a vector placed in the arena cost 200-300+ s each (the whole vector object is
        # copied into the arena): thorough tier only. The cheap views_* instances above decide the pointer identities and
        # the alignment at every offset in the every-change tier.
        aligned_use("none", "stack", "H2", off=off, tier="thorough")
        aligned_use("none", "stack", "W8D", off=off, tier="thorough")
        aligned_use("none", "stackn", "H2", off=off, tier="thorough")
    aligned_use("none", "heap", "A32")
    # C13 quick
    for i, a in enumerate(ACCS):
        handle(a, "none", "heap" if i % 2 == 0 else "stack", "B3D" if i % 3 else "W8D")
    pairs = [("ElemMutDowncast", "TypedSlice"), ("ElemMutBytes", "ElemRef"), ("TypedAtMut", "VecBytes"), ("TypedSlice", "Iter"), ("TypedIterMut", "ElemRefBytes"),
             ("VecBytes", "TypedSlice"), ("IterMutDowncast", "ElemRef")]
    for i, (w, r) in enumerate(pairs):
        coh(w, r, "none", "heap" if i % 2 == 0 else "stack", "W8" if w in ("ElemMutBytes", "VecBytes") else "B3D")
    for k, opn in enumerate(("swapremove", "remove", "pop")):
        H("c13_handlemut_%s__none_heap_stack_B3D" % opn, "c12::handle_mutation_h::<dyn None, Heap, Stack<12>, B3D>(%s, %d)" % (P(3, "s3", "s3", 4, "s3", 0), k), ["C13"], unwind=unwind_for("B3D", 5),
          dims=dict(L=3, elem="B3D", handle=opn, shape_symbolic=True), role="c13_handlemut")
    # C14 quick
    for i, w in enumerate(ITS):
        itp(w, "none", "heap" if i % 2 == 0 else "stack", "B3D" if i % 2 else "W8", L=3)
    # thorough
    for elem in ELEMS:
        for b in ("heap", "stack", "stackn", "reloc"):
            if ELEMS[elem][0] == 0 and b in ("stackn",):
                continue
            for via in ("None", "TypedSpare", "ByteSpare"):
                if ELEMS[elem][0] == 0 and via != "None":
                    continue
                for off in (((0, 1, 2, 3) if ELEMS[elem][1] > 8 else (0, 1)) if b in ("stack", "stackn") else (0,)):
                    views(via, "none", b, elem, capv=2, tier="thorough", off=off)
            # typed use of over-aligned elements on inline storage is the recorded known finding (views_h reports it
            # cheaply); a typed write through the misaligned pointer makes CBMC explode (54 GB), so it is not instantiated
            if b != "reloc" and ELEMS[elem][0] and not (b in ("stack", "stackn") and ELEMS[elem][1] > 8):
                for off in ((0, 1, 2, 3) if b in ("stack", "stackn") else (0,)):
                    aligned_use("none", b, elem, tier="thorough", off=off)
    for a in ACCS:
        for elem in ("B1", "H2", "B3D", "W8D", "T12"):
            for b in ("heap", "stack"):
                handle(a, "none", b, elem, L=4 if ELEMS[elem][0] <= 3 else 3, tier="thorough")
    for w in WRS:
        for r in RDS:
            for elem in ("W8", "H2") if w in ("ElemMutBytes", "VecBytes") else ("B3D", "W8"):
                coh(w, r, "none", "heap", elem, tier="thorough")
    for w in ITS:
        for elem in ("B1", "B3D", "W8D"):
            for b in ("heap", "stack", "reloc"):
                itp(w, "none", b, elem, L=4 if elem == "B1" else 3, tier="thorough")
