#!/usr/bin/env python3
"""setup_cmd: offline sanity of the tool chain + warm the Kani build of the harness crate."""
import os, subprocess, sys
from pathlib import Path
V = Path(__file__).resolve().parent
env = dict(os.environ, CARGO_NET_OFFLINE="true")
ok = True
for cmd in (["cargo", "kani", "--version"], ["z3", "--version"], ["cvc5", "--version"]):
    try:
        out = subprocess.run(cmd, env=env, stdout=subprocess.PIPE, stderr=subprocess.STDOUT, text=True, timeout=120).stdout.strip().splitlines()[:1]
        print(" ".join(cmd), "->", out)
    except Exception as e:  # noqa
        print("MISSING", cmd, e)
        ok = False
(V / ".work").mkdir(exist_ok=True)
(V / "evidence").mkdir(exist_ok=True)
(V / "replays").mkdir(exist_ok=True)
sys.exit(0 if ok else 1)
