#!/usr/bin/env python3
"""Writes MANIFEST.json from the per-property table below (kept in one place so it stays valid)."""
import json
from pathlib import Path

V = Path(__file__).resolve().parent
KANI_NOTE = ("Bounded: Kani/CBMC decides each harness for ALL values of its symbolic dimensions within the bounds listed in the evidence "
             "(lengths/capacities <= 3-5, element layouts and backends as instantiated); dev-profile semantics; a panic ends the path (no unwinding); "
             "core::panicking::assert_failed stubbed; heap capacities concrete per query. Counterexamples are replayed natively (dev+release) before a VIOLATION is printed.")

A = "bounded model checking of the compiled crate (Kani 0.68 / CBMC 6.11, cadical SAT) against a reference model + identity registry; native replay of counterexamples"
AB = A + "; loop-free arithmetic kernels: symbolic execution of rustc MIR to SMT-LIB2 (z3, cvc5 cross-check), full 64-bit range, dev and release overflow semantics"
CLAIMED = {
    "C01": dict(cat="model_checking", ref="DESIGN.md §1, §3 C01", tech=AB,
                text="One-operation-from-arbitrary-state harnesses over the real crate: every (len, index, payload) inside the bound for push/insert/pop/remove/swap_remove/clear, all value sources/sinks, erased+typed paths, "
                     "compared with a Vec reference model; out-of-range calls must end in the documented panic / None. Inductive over histories because the post-state is re-checked to be a valid state."),
    "C02": dict(cat="model_checking", ref="DESIGN.md §3 C02, §2", tech=AB,
                text="drain/splice from an arbitrary state for every range, every RangeBounds form, replacement length and front/back consumption pattern (SAT decides all of them in one query per instance); "
                     "into_range additionally for all 64-bit inputs and arbitrary Bound results in both overflow modes (SMT)."),
    "C03": dict(cat="model_checking", ref="DESIGN.md §3 C03", tech=A,
                text="Identity registry maintained by the elements' own Drop/Clone; for an arbitrary identity: visible places == live count <= 1 after every step, destroyed exactly once at the end; two-vector exchanges from arbitrary states, three-vector chains for enumerated shapes."),
    "C04": dict(cat="model_checking", ref="DESIGN.md §3 C04", tech=A,
                text="Every checked entry point x (vector type, offered type) incl. same-size pairs: mismatch must reach the type-check panic with the vector unchanged at that point; downcasts succeed iff the type is the real one; type reports are the real ones."),
    "C05": dict(cat="model_checking", ref="DESIGN.md §1.3, §3 C05", tech=AB,
                text="The C01/C02/C03/C08/C10 harness bodies on a user-defined backend that relocates on every resize and on Heap under Kani's relocating realloc; which bytes insert / push / remove / swap_remove / the drain-splice tail move copy, relative to the storage pointer obtained after reserving, for all 64-bit (len, index) (SMT over MIR). CBMC's object-bounds / freed-object / ub_checks are the oracle; storage lifecycle counters."),
    "C06": dict(cat="model_checking", ref="DESIGN.md §3 C06", tech=AB,
                text="Symbolic fault point: at the k-th user-code invocation (element Drop/Clone, replacement next) all vectors are inspected at that instant for the validity predicate; misreporting ExactSizeIterator with symbolic error -2..=+2. Native replay panics and unwinds for real."),
    "C07": dict(cat="model_checking", ref="DESIGN.md §3 C07", tech=AB,
                text="mem::forget of every handle / range iterator at every stage (symbolic front/back consumption) or of a yielded item, then validity predicate, further use and drop."),
    "C08": dict(cat="model_checking", ref="DESIGN.md §3 C08", tech=A,
                text="clone from every state: per-identity clone counters, type/layout/len, storage disjointness, independence under one further operation on either vector; clone_empty(_in) across backend pairs."),
    "C09": dict(cat="model_checking", ref="DESIGN.md §3 C09", tech=A,
                text="Lazy clones from every cloneable source kind x consumption kind x chain depth 1..3 x 0..3 consumptions: clone/drop counters around create, copy, drop and each consumption."),
    "C10": dict(cat="model_checking", ref="DESIGN.md §3 C10, §2", tech=AB,
                text="Capacity calls from every (len <= capacity) state with symbolic argument, allocator events via logging stubs; the shortfall / shrink / growth arithmetic for all 64-bit values in both overflow modes (SMT), incl. the doubling lemma behind amortisation."),
    "C11": dict(cat="model_checking", ref="DESIGN.md §3 C11", tech=AB,
                text="Capacity grid for Stack/StackN, capacity+1 must panic, every stack-backend harness runs with allocator stubs that fail on any heap request; Stack::build / StackN::build for free 64-bit SIZE, N, element size (SMT)."),
    "C12": dict(cat="model_checking", ref="DESIGN.md §3 C12", tech=AB,
                text="Pointer/length identities of every byte and slice view, alignment with the vector placed at enumerated offsets of a 64-aligned arena, spare-capacity writes + set_len; byte-view offset arithmetic via SMT. One recorded known finding (inline storage alignment >= 16)."),
    "C13": dict(cat="model_checking", ref="DESIGN.md §3 C13", tech=AB,
                text="Every accessor kind addresses base + i*size and reports true type/size/bytes for symbolic i; writer-view x reader-view coherence; swap for every handle pairing."),
    "C14": dict(cat="model_checking", ref="DESIGN.md §3 C14", tech=AB,
                text="All 2^(L+2) next/next_back interleavings in one query per iterator kind: exact size_hint/len at every step, order, each element once, fused, independent clones; cursor arithmetic via SMT."),
    "C15": dict(cat="other", ref="DESIGN.md §3 C15", engine="traitsmt",
                tech="trait-clause encoding extracted from rustdoc JSON of the current tree, decided by z3 over configuration flags; encoder validated against rustc on every run",
                text="Searches all 8 constraint sets x backend / element flag assignments for a configuration where a vector or handle is Send/Sync/Clone/constructible contrary to the property. A model of trait resolution, not the compiler: weaker than executing code, hence level 'other'.",
                note="Trusted: this checker's auto-trait and impl-matching rules (compared with rustc on 480 facts per run; unknown constructs make the run inconclusive). Handles and methods covered are listed in the evidence."),
    "C17": dict(cat="model_checking", ref="DESIGN.md §3 C17", tech=AB,
                text="into_raw_parts / RawParts::clone / from_raw_parts round trips from every state (once, twice), then one further operation; logging allocator; Empty backend."),
    "C18": dict(cat="model_checking", ref="DESIGN.md §3 C18, §2", tech=AB,
                text="Logging allocator stubs assert validity and consistency of every layout presented to alloc/realloc/dealloc and leak freedom; capacity requests over the whole usize range; HeapMem::resize as one inductive step over all 64-bit states (SMT)."),
    "C19": dict(cat="model_checking", ref="DESIGN.md §3 C19", tech=A + "; plus a syntactic scan of the no-default-features MIR (not solver-decided, reported separately)",
                text="The same stack-backend harness bodies are decided against any_vec built with default features and with --no-default-features: identical oracle => identical behaviour inside the bound."),
}

NA = {
    "C16": "borrow-checker verdicts on whole programs: no function of the crate to execute symbolically; compiling generated programs would be enumeration, a different technique",
}

# properties whose quick check has been seen to pass (exit 0) on the current tree; the others stay unclaimed until then
READY = set("C01 C02 C03 C04 C05 C06 C07 C08 C09 C10 C11 C12 C13 C14 C15 C17 C18 C19".split())


def main():
    props = [json.loads(l)["id"] for l in (V / "properties.jsonl").read_text().splitlines() if l.strip()]
    checks = []
    for p in props:
        if p in CLAIMED and p in READY:
            c = CLAIMED[p]
            checks.append({
                "property_id": p,
                "quick_cmd": "python3 run.py %s --tier quick" % p,
                "thorough_cmd": "python3 run.py %s --tier thorough" % p,
                "evidence_file": "evidence/%s.json" % p,
                "replay_cmd_template": "python3 run.py --replay {path}",
                "engine": c.get("engine", "kani"),
                "level_claimed": {"category": c["cat"], "text": c["text"], "design_ref": c["ref"]},
                "level_note": c.get("note", KANI_NOTE),
                "technique": c["tech"],
            })
    na = []
    for p in props:
        if p not in CLAIMED or p not in READY:
            na.append({"property_id": p, "reason": NA.get(p, "check not built yet in this session (planned, see DESIGN.md); not claimed until its harnesses run clean")})
    m = {
        "version": 1,
        "setup_cmd": "python3 setup.py",
        "hooks": {
            "guard": "tower120_any_vec_verif",
            "enable": "none needed: all engines read the unmodified sources (reserved: RUSTFLAGS='--cfg tower120_any_vec_verif')",
            "baseline_off_cmd": "cd /repo && cargo test --workspace --no-fail-fast --offline",
            "source_commits": [],
            "add_only": True,
        },
        "engines": [
            {"name": "kani", "path": "kani/ + run.py + harnesses.py + ht_c*.py", "serves_properties": sorted(p for p, c in CLAIMED.items() if c.get("engine", "kani") == "kani" and p in READY),
             "kind_free_text": "Kani 0.68 / CBMC 6.11 bounded model checking of the real crate through its public API; harness instantiations generated per run"},
            {"name": "mirsmt", "path": "mirsmt/", "serves_properties": ["C01", "C02", "C10", "C11", "C12", "C13", "C14", "C18", "C19"],
             "kind_free_text": "symbolic execution of rustc MIR (both overflow-check modes) of loop-free kernels to SMT-LIB2; z3 (+cvc5 in thorough)"},
            {"name": "traitsmt", "path": "traitsmt/", "serves_properties": ["C15"],
             "kind_free_text": "trait-clause encoding from rustdoc JSON; z3; validated against rustc"},
        ],
        "checks": checks,
        "not_applicable": na,
        "notes": "Solver-based checking only. See DESIGN.md. known_findings.json lists recorded/fixed defects.",
    }
    (V / "MANIFEST.json").write_text(json.dumps(m, indent=1) + "\n")

if __name__ == "__main__":
    main()
