#!/usr/bin/env python3
"""Writes MANIFEST.json from the per-property table below (kept in one place so it stays valid)."""
import json
from pathlib import Path

V = Path(__file__).resolve().parent
KANI_NOTE = ("Bounded: Kani/CBMC decides each harness for ALL values of its symbolic dimensions within the bounds listed in the evidence "
             "(lengths/capacities <= 3-5, element layouts and backends as instantiated); dev-profile semantics; a panic ends the path (no unwinding); "
             "core::panicking::assert_failed stubbed; heap capacities concrete per query. Counterexamples are replayed natively (dev+release) before a VIOLATION is printed.")

CLAIMED = {
    "C01": dict(cat="model_checking", ref="DESIGN.md §3 C01",
                text="One-operation-from-arbitrary-state harnesses over the real crate (Kani/CBMC, SAT): every (len, index, payload) inside the bound for push/insert/pop/remove/swap_remove/clear, "
                     "all value sources/sinks, erased+typed paths, compared with a Vec reference model; out-of-range calls must end in the documented panic / None.",
                tech="bounded model checking of the compiled crate (Kani 0.68 / CBMC 6.11, cadical) against a reference model; native replay of counterexamples"),
}

NA = {
    "C16": "borrow-checker verdicts on whole programs: no function of the crate to execute symbolically; compiling generated programs would be enumeration, a different technique",
}

def main():
    props = [json.loads(l)["id"] for l in (V / "properties.jsonl").read_text().splitlines() if l.strip()]
    checks = []
    for p in props:
        if p in CLAIMED:
            c = CLAIMED[p]
            checks.append({
                "property_id": p,
                "quick_cmd": "python3 run.py %s --tier quick" % p,
                "thorough_cmd": "python3 run.py %s --tier thorough" % p,
                "evidence_file": "evidence/%s.json" % p,
                "replay_cmd_template": "python3 run.py --replay {path}",
                "engine": c.get("engine", "kani"),
                "level_claimed": {"category": c["cat"], "text": c["text"], "design_ref": c["ref"]},
                "level_note": c.get("note", KANI_NOTE),
                "technique": c["tech"],
            })
    na = []
    for p in props:
        if p not in CLAIMED:
            na.append({"property_id": p, "reason": NA.get(p, "check not built yet in this session (planned, see DESIGN.md); not claimed until its harnesses run clean")})
    m = {
        "version": 1,
        "setup_cmd": "python3 setup.py",
        "hooks": {
            "guard": "tower120_any_vec_verif",
            "enable": "none needed: all engines read the unmodified sources (reserved: RUSTFLAGS='--cfg tower120_any_vec_verif')",
            "baseline_off_cmd": "cd /repo && cargo test --workspace --no-fail-fast --offline",
            "source_commits": [],
            "add_only": True,
        },
        "engines": [
            {"name": "kani", "path": "kani/ + run.py + harnesses.py", "serves_properties": sorted(p for p, c in CLAIMED.items() if c.get("engine", "kani") == "kani"),
             "kind_free_text": "Kani 0.68 / CBMC 6.11 bounded model checking of the real crate through its public API; harness instantiations generated per run"},
        ],
        "checks": checks,
        "not_applicable": na,
        "notes": "Solver-based checking only. See DESIGN.md. known_findings.json lists recorded/fixed defects.",
    }
    (V / "MANIFEST.json").write_text(json.dumps(m, indent=1) + "\n")

if __name__ == "__main__":
    main()
