#!/usr/bin/env python3
"""Collects, from the thorough measurement runs (.work/thorough/*/*.json, evidence written by run.py), the
thorough-only harness instances that ended in a conclusive pass on the current tree, and records them in
thorough_verified.json. harnesses.select() registers only those (plus the whole quick/rotation pool) for the
thorough tier; instances that timed out / ran out of memory / were never reached in the time available are listed
under `not_verified` with the reason."""
import glob, json
from pathlib import Path
V = Path(__file__).resolve().parent
ok, bad = {}, {}
import re
KNOWN = [re.compile(k["match"]["harness"]) for k in json.loads((V / "known_findings.json").read_text())["findings"] if k.get("status") == "known" and k.get("engine") == "kani"]
for f in sorted(glob.glob(str(V / ".work" / "thorough" / "*" / "*.json"))):
    d = json.load(open(f))
    for h in d["coverage"].get("harnesses", []):
        # under the measurement pseudo-property a known finding (K01) shows as a plain violation: the per-property run
        # applies the full matcher (harness, description, function) and reports it as KNOWN-FINDING
        if h["verdict"] in ("pass", "known-finding") or (h["verdict"] == "violation" and any(k.search(h["harness"]) for k in KNOWN)):
            ok[h["harness"]] = h["time_s"]
            bad.pop(h["harness"], None)
        elif h["harness"] not in ok:
            bad[h["harness"]] = "%s (%s s)" % (h["verdict"], h["time_s"])
import sys
sys.path.insert(0, str(V))
import harnesses as HT
HT._load()
existing = {e["name"] for e in HT._ENTRIES}
ok = {k: v for k, v in ok.items() if k in existing}
bad = {k: v for k, v in bad.items() if k in existing}
p = V / "thorough_verified.json"
old = json.loads(p.read_text()) if p.exists() else {"verified": [], "not_verified": {}}
names = sorted((set(old["verified"]) | set(ok)) & existing)
nv = {k: v for k, v in {**old.get("not_verified", {}), **bad}.items() if k not in names and k in existing}
p.write_text(json.dumps({"verified": names, "not_verified": nv}, indent=0, sort_keys=True))
print(len(names), "verified thorough instances;", len(nv), "not verified")
