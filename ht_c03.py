"""C03 (ownership over several vectors), C06 (faults / misreporting iterators), C07 (forget) harness instances."""
import itertools
from harnesses import *  # noqa
from ht_c01 import P, ins, rem
from ht_c02 import P2

STEPS = ["RemovePush", "SwapRemoveInsert", "PopPush", "DrainPush", "RemoveDrop", "RemoveReinsert", "Clear"]


def chain(tr, b, elem, lens, steps, tier="quick"):
    """steps: list of (Step, src, dst, i, j)"""
    st = list(steps) + [("Clear", 0, 1, 0, 0)] * (3 - len(steps))
    tag = "_".join("%s%d%d%d%d" % (s[0][:2].lower() + s[0][-2:].lower(), s[1], s[2], s[3], s[4]) for s in steps)
    name = "c03_chain__%s_%s_%s__l%d%d%d__%s" % (tr, b, elem, lens[0], lens[1], lens[2], tag)
    arr = ", ".join("(c03::Step::%s, %d, %d, %d, %d)" % s for s in st)
    call = "c03::chain3::<%s, %s, %s>([%d, %d, %d], [%s], %d)" % (TR[tr], bk(b, elem, 5), elem, lens[0], lens[1], lens[2], arr, len(steps))
    H(name, call, ["C03"] + (["C05"] if b == "reloc" else []), tier=tier, unwind=unwind_for(elem, 6),
      dims=dict(vectors=3, lens=list(lens), steps=[list(s) for s in steps], elem=elem, backend=b, traits=tr, shape_symbolic=False, payloads_symbolic=True), role="c03_chain")


def forget(op, tr, b, elem, L=3, fb=1, r="s1", tier="quick"):
    name = "c07_forget_%s__%s_%s_%s__L%d_fb%d" % (op.lower(), tr, b, elem, L, fb)
    capv = L + 2
    call = "c03::forget_h::<%s, %s, %s>(%s, c03::FOp::%s)" % (TR[tr], bk(b, elem, capv), elem, P2(capv, "s%d" % L, "s%d" % L, "s%d" % L, fb, r), op)
    H(name, call, ["C07"], tier=tier, unwind=unwind_for(elem, capv + 1), dims=dict(L=L, cap=capv, op=op, front_back_max=fb, elem=elem, backend=b, traits=tr, shape_symbolic=True), role="c07_forget_%s" % op.lower())


def fault(scn, tr, b, elem, L=3, fb=1, r="s1", fmax=5, tier="quick", shape=None):
    """shape=(len, start, end, r): concrete (needed for splice scenarios on resizable storage)"""
    capv = L + 2
    if shape is None:
        p2 = P2(capv, "s%d" % L, "s%d" % L, "s%d" % L, fb, r)
        tag = "L%d" % L
    else:
        ln, st, en, rr = shape
        p2 = P2(capv, ln, st, en, fb, rr)
        tag = "l%d_s%d_e%d_r%d" % shape
    name = "c06_fault_%s__%s_%s_%s__%s_f%d" % (scn.lower(), tr, b, elem, tag, fmax)
    call = "c06::fault_h::<%s, %s, %s>(%s, c06::Scn::%s, %d)" % (TR[tr], bk(b, elem, capv), elem, p2, scn, fmax)
    H(name, call, ["C06"], tier=tier, unwind=unwind_for(elem, capv + 1), dims=dict(L=L, cap=capv, shape=shape or "symbolic", scenario=scn, fault_point="1..=%d (symbolic)" % fmax, elem=elem, backend=b, traits=tr, shape_symbolic=shape is None), role="c06_fault_%s" % scn.lower())


def faultc(scn, tr, b, elem, L=2, fmax=4, tier="quick", ylen=None):
    """ylen: concrete length of the source vector (needed when it is cloned onto resizable storage)"""
    capv = L + 1
    yl = ("s%d" % L) if ylen is None else ylen
    name = "c06_faultclone_%s__%s_%s_%s__L%d_y%s_f%d" % (scn.lower(), tr, b, elem, L, yl, fmax)
    call = "c06::fault_clone_h::<%s, %s, %s>(%s, c06::CScn::%s, %d)" % (TR[tr], bk(b, elem, capv), elem, P(capv, "s%d" % L, "s%d" % L, capv, yl, "s%d" % L), scn, fmax)
    H(name, call, ["C06"], tier=tier, unwind=unwind_for(elem, capv + 1), dims=dict(L=L, cap=capv, source_len=yl, scenario=scn, fault_point="1..=%d (symbolic)" % fmax, elem=elem, backend=b, traits=tr, shape_symbolic=ylen is None), role="c06_faultclone_%s" % scn.lower())


def liar(typed, tr, b, elem, L=2, tier="quick", start=None, end=None, ln=None, r="s2", dl="s4"):
    """dl: 0..4 = len() off by -2..+2. Resizable storage: r and dl concrete (the reservation size depends on them)"""
    capv = L + 4
    start = "s%d" % L if start is None else start
    end = "s%d" % L if end is None else end
    ln = "s%d" % L if ln is None else ln
    name = "c06_liar_%s__%s_%s_%s__L%d_l%s_s%s_e%s_r%s_d%s" % ("typed" if typed else "erased", tr, b, elem, L, ln, start, end, r, dl)
    call = "c06::liar_h::<%s, %s, %s>(%s, %s, %s)" % (TR[tr], bk(b, elem, capv), elem, P2(capv, ln, start, end, 0, r), "true" if typed else "false", dim(dl))
    H(name, call, ["C06"], tier=tier, unwind=unwind_for(elem, capv + 1), dims=dict(L=L, cap=capv, len=ln, start=start, end=end, yielded=r, len_error=dl if not isinstance(dl, str) else "-2..=+2 (symbolic)", elem=elem, backend=b, traits=tr, shape_symbolic=isinstance(ln, str)), role="c06_liar")


SCNS = ["Clear", "TClear", "DropVec", "RemoveDrop", "SwapRemoveDrop", "PopDrop", "DrainDrop", "TDrainDrop", "SpliceWrapper", "SpliceRaw", "TSplice"]
CSCNS = ["CloneVec", "PushLazy", "InsertLazy", "SpliceLazy", "LazyDowncast"]
FOPS = ["Pop", "Remove", "SwapRemove", "Drain", "Splice", "DrainItem", "SpliceItem", "TDrain"]


def define():
    # ---- C03: exchange kinds over two vectors in arbitrary states = the C01 cross-vector harnesses (registry asserts active)
    for e in all_entries_named(("c01_ins_yremove_ins__none_heap_stack_B3D", "c01_ins_yswapremove_push__none_stack_heap_B3D", "c01_ins_ydrain_ins__none_heap_heap_B3D",
                                "c01_rem_remove_inserty__none_heap_stack_B3D", "c01_rem_swapremove_pushy__none_heap_heap_B3D", "c01_rem_remove_drop__none_heap_heap_B3D",
                                "c01_rem_remove_downcast__none_stack_heap_B3D", "c01_clear_erased__none_heap_B3D", "c01_clear_erased__none_heap_Z0D", "c01_rem_remove_drop__none_heap_heap_Z0D",
                                "c01_rem_swapremove_drop__none_heap_heap_Z0D", "c02_drain_erased__none_stack_B3D__cf3_ls3_ss3_es3_fs2_bs2", "c02_drain_typed__none_heap_B3D", "c02_drain_erased__none_heap_Z0D",
                                # splice dropped after an arbitrary part of the replaced range was taken (front/back): every replaced element destroyed once
                                "c02_splice_erased_raw__none_stack_B3D__cf3_ls3_ss3_es3_fs1_bs1_rf0", "c02_splice_typed_wrapper__none_stack_B3D__cf4_ls3_ss3_es3_fs1_bs1_rf1")):
        if "C03" not in e["props"]:
            e["props"].append("C03")
    # three vectors, 2-3 concrete steps, symbolic payloads (seeded rotation in quick, all in thorough)
    chain("none", "heap", "B3D", (2, 1, 1), [("RemovePush", 0, 1, 0, 0), ("SwapRemoveInsert", 1, 2, 1, 0)])
    chain("none", "heap", "B3D", (2, 2, 0), [("PopPush", 0, 2, 0, 0), ("DrainPush", 1, 2, 0, 0), ("RemoveReinsert", 2, 0, 0, 0)])
    chain("none", "stack", "W8D", (1, 2, 1), [("RemoveDrop", 1, 0, 1, 0), ("RemovePush", 1, 0, 0, 0)])
    chain("none", "heap", "W8", (2, 1, 1), [("RemovePush", 0, 1, 1, 0), ("Clear", 1, 0, 0, 0)])
    chain("none", "reloc", "B3D", (2, 1, 0), [("SwapRemoveInsert", 0, 2, 0, 0), ("PopPush", 1, 2, 0, 0)])
    H("c03_cloneown__clone_stack_B3D", "c03::clone_own::<dyn Cloneable, Stack<6>, B3D>(%s)" % P(2, "s2", 0), ["C03", "C08"], unwind=unwind_for("B3D", 4), dims=dict(L=2, elem="B3D", backend="stack", shape_symbolic=True), role="c03_cloneown")
    H("c03_cloneown__clone_heap_B3D__l2", "c03::clone_own::<dyn Cloneable, Heap, B3D>(%s)" % P(2, 2, 0), ["C03", "C08"], unwind=unwind_for("B3D", 4), dims=dict(L=2, len=2, elem="B3D", backend="heap", shape_symbolic=False, payloads_symbolic=True), role="c03_cloneown")
    n = 0
    for (s1, s2) in itertools.product(STEPS, repeat=2):
        for (a, b2, c) in ((0, 1, 2), (1, 2, 0)):
            n += 1
            chain("none", "heap" if n % 3 else "stack", "B3D", (2, 2, 1), [(s1, a, b2, n % 2, 0), (s2, b2, c, 0, n % 2)], tier="rot32")
    # ---- C07
    for i, op in enumerate(FOPS):
        # a splice iterator that is dropped normally reserves f(range, r) elements: symbolic shapes only on fixed-capacity storage
        forget(op, "none", "heap" if (i % 2 == 0 and op != "SpliceItem") else "stack", "B3D" if i % 3 else "W8D")
    # element types without drop glue (the library branches on drop_fn / needs_drop in these handles)
    forget("Drain", "none", "stack", "H2")
    forget("TDrain", "none", "heap", "W8", tier="rot2")
    forget("Remove", "none", "heap", "H2", tier="rot2")
    for op in FOPS:
        for b in ("heap", "stack", "reloc"):
            if op == "SpliceItem" and b != "stack":
                continue
            for elem in ("B3D", "W8D", "H2"):
                forget(op, "none", b, elem, L=3, fb=2, tier="thorough")
    # ---- C06
    for i, scn in enumerate(SCNS):
        if "Splice" in scn:
            # splice under a symbolic fault point: concrete (len, range, r) per query (symbolic shape: ~10 GB / 10 min)
            fault(scn, "none", "stack", "B3D", shape=(3, 1, 2, 2))
            fault(scn, "none", "heap", "B3D", shape=(3, 0, 2, 1), tier="quick" if scn == "SpliceRaw" else "rot3")
            fault(scn, "none", "stack", "B3D", shape=(2, 1, 1, 2), tier="rot3")
        else:
            fault(scn, "none", "heap" if i % 2 == 0 else "stack", "B3D")
    for i, scn in enumerate(CSCNS):
        if scn == "SpliceLazy":
            faultc(scn, "clone", "stack", "B3D")     # splice position symbolic: fixed-capacity storage only
        elif scn == "CloneVec":
            faultc(scn, "clone", "stack", "B3D")
            faultc(scn, "clone", "heap", "B3D", ylen=2)
        else:
            faultc(scn, "clone", "heap" if i % 2 == 0 else "stack", "B3D")
    liar(False, "none", "stack", "B3D", ln=2, start=1, end=2)
    liar(True, "none", "stack", "B3D", ln=2, start=0, end=0, tier="rot2")
    liar(False, "none", "stack", "B3D", ln=1, start=0, end=1, tier="rot2")
    n = 0
    for r in (0, 1, 2):
        for dl in (0, 1, 3, 4):
            if r + dl - 2 < 0:
                continue
            n += 1
            liar(False, "none", "heap", "B3D", L=2, ln=2, start=1, end=2, r=r, dl=dl, tier="quick" if (r, dl) in ((1, 4), (2, 0)) else "rot6")
    for scn in SCNS:
        for b in ("heap", "stack", "reloc"):
            for elem in ("B3D", "W8D"):
                if "Splice" in scn:
                    for shape in ((3, 1, 2, 2), (3, 0, 3, 1), (2, 1, 1, 2), (3, 0, 1, 0)):
                        fault(scn, "none", b, elem, L=3, fb=1, fmax=7, tier="thorough", shape=shape)
                else:
                    fault(scn, "none", b, elem, L=3, fb=2, r="s2", fmax=7, tier="thorough")
    for scn in CSCNS:
        for b in ("heap", "stack", "reloc"):
            for elem in ("B3D", "W8D"):
                if scn == "SpliceLazy" and b != "stack":
                    continue
                if scn == "CloneVec" and b != "stack":
                    for yl in (1, 2, 3):
                        faultc(scn, "clone", b, elem, L=3, fmax=5, tier="thorough", ylen=yl)
                else:
                    faultc(scn, "clone", b, elem, L=3, fmax=5, tier="thorough")
    for typed in (False, True):
        for elem in ("B3D", "W8D"):
            for (ln, st, en) in ((2, 1, 2), (2, 0, 0), (1, 0, 1), (2, 0, 2)):
                liar(typed, "none", "stack", elem, L=2, ln=ln, start=st, end=en, tier="thorough")
                for r in (0, 1, 2):
                    for dl in (0, 1, 3, 4):
                        if r + dl - 2 >= 0:
                            liar(typed, "none", "heap", elem, L=2, ln=ln, start=st, end=en, r=r, dl=dl, tier="thorough" if elem == "B3D" else "rot64")
