#!/bin/bash
# usage: seedrun.sh <seed-id> <PROP> [<PROP>...]   - applies the seeded patch to /repo, runs the quick checks, reverts.
# (official procedure: git -C /repo apply, run, git -C /repo checkout -- .)
sid=$1; shift
cd /verif
git -C /repo diff --quiet || { echo "/repo has uncommitted changes"; exit 2; }
git -C /repo apply /verif/seeded/$sid/patch.diff || { echo "patch does not apply"; exit 2; }
mkdir -p .work/seedruns
for p in "$@"; do
  VERIF_EVIDENCE_DIR=/verif/.work/seedruns/ev_$sid python3 run.py $p --tier quick --max-replays 1 > .work/seedruns/${sid}_$p.out 2>&1
  rc=$?
  echo "$sid $p exit=$rc violations=$(grep -c '^VIOLATION' .work/seedruns/${sid}_$p.out) first=$(grep -A1 '^VIOLATION' .work/seedruns/${sid}_$p.out | sed -n 2p | cut -c1-160)"
done
git -C /repo checkout -- .
