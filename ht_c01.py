"""C01 harness instances (also serve C05 on Heap/Reloc, C11 on stack backends, C03 registry)."""
from harnesses import *  # noqa


def shape_tag(cap, ln, idx):
    def f(x):
        return x if isinstance(x, str) else "f%d" % x
    return "c%s_l%s_i%s" % (f(cap), f(ln), f(idx))


def props_for(b, by=None, base=("C01",), also=()):
    p = list(base)
    if b in ("reloc", "reloc1") or by in ("reloc", "reloc1"):
        p.append("C05")
    if b in ("stack", "stackn"):
        p.append("C11")
    for a in also:
        if a not in p:
            p.append(a)
    return p


def ins(src, push, tr, b, by, elem, L=3, tier="quick", cap=None, ln=None, idx=None, L2=2, also=()):
    cap = L if cap is None else cap
    ln = ("s%d" % L) if ln is None else ln
    idx = ("s%d" % L) if idx is None else idx
    name = "c01_ins_%s_%s__%s_%s_%s_%s__%s" % (src.lower(), "push" if push else "ins", tr, b, by, elem, shape_tag(cap, ln, idx))
    B = bk(b, elem, cap)
    BY = bk(by, elem, L2)
    bytepath = src not in ("Wrapper",)
    call = "c01::ins_erased::<%s, %s, %s, %s>(%s, c01::Src::%s, %s)" % (TR[tr], B, BY, elem, P(cap, ln, idx, L2, "s%d" % L2, "s%d" % L2), src, "true" if push else "false")
    H(name, call, props_for(b, by, also=also), tier=tier, unwind=unwind_for(elem, max(L, dmax(ln)) + 1, bytepath),
      dims=dict(cap=cap, len=ln, idx=idx, cap2=L2, len2="s%d" % L2, idx2="s%d" % L2, elem=elem, backend=b, backend2=by, traits=tr, shape_symbolic=isinstance(ln, str)),
      role="c01_ins_%s" % src.lower())


def lazy(push, tr, b, by, elem, L=3, tier="quick", L2=2, also=()):
    name = "c01_inslazy_%s__%s_%s_%s_%s__L%d" % ("push" if push else "ins", tr, b, by, elem, L)
    call = "c01::ins_lazy::<%s, %s, %s, %s>(%s, %s)" % (TR[tr], bk(b, elem, L), bk(by, elem, L2), elem, P(L, "s%d" % L, "s%d" % L, L2, "s%d" % L2, "s%d" % L2), "true" if push else "false")
    H(name, call, props_for(b, by, ("C01", "C09"), also=also), tier=tier, unwind=unwind_for(elem, L + 1), dims=dict(L=L, L2=L2, elem=elem, backend=b, backend2=by, traits=tr, shape_symbolic=True), role="c01_inslazy")


def instyped(push, tr, b, elem, L=3, tier="quick", cap=None, ln=None, idx=None, also=()):
    cap = L if cap is None else cap
    ln = ("s%d" % L) if ln is None else ln
    idx = ("s%d" % L) if idx is None else idx
    name = "c01_instyped_%s__%s_%s_%s__%s" % ("push" if push else "ins", tr, b, elem, shape_tag(cap, ln, idx))
    call = "c01::ins_typed::<%s, %s, %s>(%s, %s)" % (TR[tr], bk(b, elem, cap), elem, P(cap, ln, idx), "true" if push else "false")
    H(name, call, props_for(b, also=also), tier=tier, unwind=unwind_for(elem, L + 1, False), dims=dict(cap=cap, len=ln, idx=idx, elem=elem, backend=b, traits=tr, shape_symbolic=isinstance(ln, str)), role="c01_instyped")


def rem(op, sink, tr, b, by, elem, L=3, tier="quick", cap=None, ln=None, idx=None, L2=2, also=()):
    cap = L if cap is None else cap
    ln = ("s%d" % L) if ln is None else ln
    idx = ("s%d" % L) if idx is None else idx
    name = "c01_rem_%s_%s__%s_%s_%s_%s__%s" % (op.lower(), sink.lower(), tr, b, by, elem, shape_tag(cap, ln, idx))
    call = "c01::rem_erased::<%s, %s, %s, %s>(%s, c01::Rem::%s, c01::Sink::%s)" % (TR[tr], bk(b, elem, cap), bk(by, elem, L2 + 1), elem, P(cap, ln, idx, L2 + 1, "s%d" % L2, "s%d" % L2), op, sink)
    H(name, call, props_for(b, by if sink in ("PushY", "InsertY") else None, also=also), tier=tier, unwind=unwind_for(elem, max(L, L2) + 1),
      dims=dict(cap=cap, len=ln, idx=idx, elem=elem, backend=b, backend2=by, traits=tr, shape_symbolic=isinstance(ln, str)), role="c01_rem_%s" % op.lower())


def remtyped(op, tr, b, elem, L=3, tier="quick", also=()):
    name = "c01_remtyped_%s__%s_%s_%s__L%d" % (op.lower(), tr, b, elem, L)
    call = "c01::rem_typed::<%s, %s, %s>(%s, c01::Rem::%s)" % (TR[tr], bk(b, elem, L), elem, P(L, "s%d" % L, "s%d" % L), op)
    H(name, call, props_for(b, also=also), tier=tier, unwind=unwind_for(elem, L + 1, False), dims=dict(L=L, elem=elem, backend=b, traits=tr, shape_symbolic=True), role="c01_remtyped_%s" % op.lower())


def clear(typed, tr, b, elem, L=3, tier="quick", also=()):
    name = "c01_clear_%s__%s_%s_%s__L%d" % ("typed" if typed else "erased", tr, b, elem, L)
    call = "c01::clear_h::<%s, %s, %s>(%s, %s)" % (TR[tr], bk(b, elem, L), elem, P(L, "s%d" % L, 0), "true" if typed else "false")
    H(name, call, props_for(b, also=also), tier=tier, unwind=unwind_for(elem, L + 1, False), dims=dict(L=L, elem=elem, backend=b, traits=tr, shape_symbolic=True), role="c01_clear")


OOR_EXPECT = {
    "Remove": X_INDEX, "SwapRemove": X_INDEX, "Insert": X_INSERT, "At": X_UNWRAP, "AtMut": X_UNWRAP,
    "TRemove": X_INDEX, "TSwapRemove": X_INDEX, "TInsert": X_INSERT, "TAt": X_UNWRAP, "TAtMut": X_UNWRAP,
}


def oor(which, tr, b, elem, L=3, tier="quick", also=()):
    name = "c01_oor_%s__%s_%s_%s__L%d" % (which.lower(), tr, b, elem, L)
    call = "c01::oor::<%s, %s, %s>(%s, c01::Oor::%s)" % (TR[tr], bk(b, elem, L + 1), elem, P(L + 1, "s%d" % L, "s1"), which)
    mp = which in OOR_EXPECT
    H(name, call, props_for(b, also=also), tier=tier, unwind=unwind_for(elem, L + 1), expect=[OOR_EXPECT[which]] if mp else [], must_panic=mp,
      dims=dict(L=L, beyond="0..=1", elem=elem, backend=b, traits=tr, shape_symbolic=True), role="c01_oor_%s" % which.lower())


SRCS = ["Wrapper", "Raw", "Typeless", "Sizeless", "YRemove", "YSwapRemove", "YPop", "YDrain"]
SINKS = ["Drop", "Downcast", "DowncastRef", "MutDowncast", "BytesMut", "PushY", "InsertY"]
OORS = ["Remove", "SwapRemove", "Insert", "At", "AtMut", "Get", "GetMut", "Pop", "TRemove", "TSwapRemove", "TInsert", "TAt", "TAtMut", "TGet", "TGetMut", "TPop"]


def define():
    # ---------------- quick core: class S, symbolic shape, Heap + Stack. 3-byte drop-glue element in the
    # every-change tier (cheapest type with identity registry); the 8-byte twins rotate by seed (rot3).
    for elem, tier in (("B3D", "quick"), ("W8D", "rot3")):
        ins("Raw", False, "none", "heap", "heap", elem, tier=tier)
        ins("Raw", False, "none", "stack", "heap", elem, tier=tier if elem == "W8D" else "rot3")
        ins("Wrapper", False, "none", "heap", "heap", elem, tier=tier)
        ins("Wrapper", True, "none", "stack", "heap", elem, tier=tier)
        ins("YRemove", False, "none", "heap", "stack", elem, tier=tier)
        ins("YSwapRemove", True, "none", "stack", "heap", elem, tier=tier)
        ins("YPop", False, "none", "heap", "heap", elem, tier="rot3")
        ins("YDrain", False, "none", "heap", "heap", elem, tier=tier)
        lazy(False, "clone", "heap", "heap", elem, tier=tier)
        lazy(True, "clone", "stack", "heap", elem, tier="rot3")
        instyped(False, "none", "heap", elem, tier=tier)
        instyped(True, "none", "stack", elem, tier=tier)
        rem("Pop", "Drop", "none", "heap", "heap", elem, tier=tier)
        rem("Pop", "PushY", "none", "stack", "heap", elem, tier="rot3")
        rem("Remove", "Drop", "none", "heap", "heap", elem, tier=tier)
        rem("Remove", "Downcast", "none", "stack", "heap", elem, tier=tier)
        rem("Remove", "InsertY", "none", "heap", "stack", elem, tier=tier)
        rem("SwapRemove", "Drop", "none", "stack", "heap", elem, tier=tier)
        rem("SwapRemove", "MutDowncast", "none", "heap", "heap", elem, tier="rot3")
        rem("SwapRemove", "PushY", "none", "heap", "heap", elem, tier=tier)
        rem("Pop", "BytesMut", "none", "heap", "heap", elem, tier="rot3")
        for op in ("Pop", "Remove", "SwapRemove"):
            remtyped(op, "none", "heap" if op != "Remove" else "stack", elem, tier=tier)
        clear(False, "none", "heap", elem, tier=tier)
        clear(True, "none", "stack", elem, tier=tier)
        for w in OORS:
            oor(w, "none", "heap" if OORS.index(w) % 2 == 0 else "stack", elem, tier=tier if elem == "B3D" else "rot8")
        ins("Raw", False, "none", "reloc", "reloc", elem, tier=tier)
        ins("Raw", False, "none", "stackn", "heap", elem, tier=tier)
        rem("Remove", "PushY", "none", "reloc", "reloc", elem, tier=tier)
        # heap growth from smaller capacities (len == cap), concrete capacity, symbolic index
        for c in (0, 1, 2):
            ins("Raw", False, "none", "heap", "heap", elem, L=3, cap=c, ln=c, idx="s%d" % c, tier=tier if c != 1 else "rot3")
    ins("Typeless", False, "none", "heap", "heap", "H2")
    ins("Sizeless", True, "none", "stack", "heap", "W8", tier="rot3")
    ins("Sizeless", False, "none", "stack", "heap", "B1")
    rem("Remove", "DowncastRef", "none", "heap", "heap", "H2")
    # element types without drop glue take different branches in the handle's Drop
    rem("SwapRemove", "Drop", "none", "heap", "heap", "H2")
    rem("Remove", "Drop", "none", "stack", "heap", "B1")
    rem("Remove", "Drop", "none", "heap", "heap", "W8", tier="rot3")
    rem("SwapRemove", "MutDowncast", "none", "stack", "heap", "W8", tier="rot3")
    clear(False, "none", "heap", "Z0D")
    # zero-sized
    ins("Wrapper", False, "none", "heap", "heap", "Z0D")
    ins("Raw", True, "none", "heap", "heap", "Z0")
    rem("Remove", "Drop", "none", "heap", "heap", "Z0D")
    rem("SwapRemove", "Drop", "none", "heap", "heap", "Z0D")
    rem("SwapRemove", "PushY", "none", "stack", "heap", "Z0", tier="rot2")
    rem("Pop", "Downcast", "none", "heap", "heap", "Z0D", tier="rot2")
    # class M / L: concrete shapes in rotation (quick), all in thorough
    for elem in ("T12", "Q16", "D24D", "A32", "A64", "L160D"):
        for (ln, idx) in ((3, 0), (3, 1), (2, 2), (3, 3)):
            ins("Raw", False, "none", "heap", "heap", elem, L=3, cap=4, ln=ln, idx=idx, tier="rot8")
            ins("Wrapper", False, "none", "stack" if ELEMS[elem][1] <= 8 else "reloc", "heap", elem, L=3, cap=4, ln=ln, idx=idx, tier="rot8")
        for (ln, idx) in ((3, 0), (3, 2)):
            rem("Remove", "Drop", "none", "heap", "heap", elem, L=3, cap=4, ln=ln, idx=idx, tier="rot8")
            rem("SwapRemove", "PushY", "none", "stack" if ELEMS[elem][1] <= 8 else "reloc", "heap", elem, L=3, cap=4, ln=ln, idx=idx, tier="rot8")
    # the 128-byte switch in copy_bytes: 1-byte elements, count = 126..129
    for ln in (127, 128, 129, 130):
        for src in ("Raw", "Wrapper"):
            H("c01_big_%s__heap_B1__l%d" % (src.lower(), ln), "c01::big::<dyn None, Heap, B1>(%d, 1, c01::Src::%s)" % (ln, src), ["C01", "C05"],
              tier="quick" if (ln == 129 and src == "Raw") else "rot4", unwind=134,
              dims=dict(len=ln, idx=1, elem="B1", backend="heap", shape_symbolic=False, note="128-byte switch in copy_bytes: count=len-1"), role="c01_big")
    # the word-copy region of copy_bytes (64..127 bytes, odd remainders) and below, both directions
    for ln, tier in ((100, "quick"), (70, "rot4"), (40, "rot4")):
        H("c01_big_raw__heap_B1__l%d" % ln, "c01::big::<dyn None, Heap, B1>(%d, 1, c01::Src::Raw)" % ln, ["C01", "C05"], tier=tier, unwind=134,
          dims=dict(len=ln, idx=1, elem="B1", backend="heap", shape_symbolic=False, note="copy_bytes count=len-1 (insert shifts towards the end)"), role="c01_big")
    for ln, typed, tier in ((101, False, "quick"), (128, False, "rot4"), (71, True, "rot4"), (131, False, "rot4"), (42, False, "rot4")):
        H("c01_bigrem_%s__heap_B1__l%d" % ("typed" if typed else "erased", ln), "c01::big_remove::<dyn None, Heap, B1>(%d, 1, %s)" % (ln, "true" if typed else "false"), ["C01", "C05"], tier=tier, unwind=134,
          dims=dict(len=ln, idx=1, elem="B1", backend="heap", shape_symbolic=False, note="copy_bytes count=len-2 (remove shifts towards the start)"), role="c01_bigrem")
    ins("Raw", False, "none", "reloc1", "heap", "B3D", L=3, cap=1, ln=1, idx="s1")
    ins("Wrapper", True, "none", "reloc1", "heap", "B3D", L=3, cap=2, ln=2, idx="s2", tier="rot3")
    ins("Raw", False, "none", "heap", "heap", "F4", tier="rot3")
    ins("Raw", False, "none", "stack", "heap", "P8D", tier="rot3")
    # ---------------- thorough: full cross product on class S, more constraint sets / backends, L = 4
    for elem in ("B1", "H2", "B3D", "W8", "W8D"):
        for b in (("heap", "stack", "reloc", "stackn") if elem in ("B1", "B3D", "W8D") else ("heap",)):
            for src in SRCS:
                for push in (False, True):
                    ins(src, push, "none", b, "heap" if b != "heap" else "stack", elem, L=4, tier="thorough")
            for op in ("Pop", "Remove", "SwapRemove"):
                for sink in SINKS:
                    rem(op, sink, "none", b, "heap" if b != "heap" else "stack", elem, L=4, tier="thorough")
                remtyped(op, "none", b, elem, L=4, tier="thorough")
            instyped(False, "none", b, elem, L=4, tier="thorough")
            instyped(True, "none", b, elem, L=4, tier="thorough")
            clear(False, "none", b, elem, L=4, tier="thorough")
            clear(True, "none", b, elem, L=4, tier="thorough")
    for tr in ("clone", "send", "sync", "call"):
        for elem in ("B3D", "W8D"):
            ins("Raw", False, tr, "heap", "heap", elem, L=4, tier="thorough")
            rem("Remove", "PushY", tr, "heap", "stack", elem, L=4, tier="thorough")
            if tr in CLONEABLE:
                lazy(False, tr, "heap", "stack", elem, L=4, tier="thorough")
                lazy(True, tr, "stack", "heap", elem, L=4, tier="thorough")
    for w in OORS:
        for b in ("heap", "stack", "reloc", "stackn"):
            oor(w, "none", b, "B3D", L=4, tier="thorough")
    for elem in ("T12", "Q16", "D24D"):
        ins("Raw", False, "none", "heap", "heap", elem, L=3, tier="thorough")
        rem("Remove", "Drop", "none", "heap", "heap", elem, L=3, tier="thorough")
    for elem in ("B1", "H2"):
        ins("Raw", False, "none", "heap", "heap", elem, L=5, tier="thorough")
        rem("Remove", "Drop", "none", "stack", "heap", elem, L=5, tier="thorough")
