"""C08 (clone) and C09 (lazy clone) harness instances."""
from harnesses import *  # noqa
from ht_c01 import P

AFTERS = ["Nothing", "PushOrig", "PushClone", "RemoveOrig", "RemoveClone", "MutateOrig", "MutateClone", "ClearOrig", "ClearClone"]


def clone(after, tr, b, elem, L=3, tier="quick", slack=1, ln=None):
    """resizable backends: the clone allocates `len` elements, so len is concrete per query (a symbolic
    allocation size makes CBMC's array theory explode); fixed-capacity backends: len symbolic."""
    if ln is None:
        ln = ("s%d" % L) if b in ("stack", "stackn") else L
    lt = ln if isinstance(ln, str) else "f%d" % ln
    name = "c08_clone_%s__%s_%s_%s__L%d_l%s" % (after.lower(), tr, b, elem, L, lt)
    call = "c08::clone_h::<%s, %s, %s>(%s, c08::After::%s)" % (TR[tr], bk(b, elem, L + slack), elem, P(L + slack, ln, "s%d" % L), after)
    props = ["C08"] + (["C11"] if b in ("stack", "stackn") else []) + (["C05"] if b in ("reloc", "reloc1") else [])
    H(name, call, props, tier=tier, unwind=unwind_for(elem, L + 2), dims=dict(L=L, cap=L + slack, len=ln, after=after, elem=elem, backend=b, traits=tr, shape_symbolic=isinstance(ln, str)), role="c08_clone")


def clone_empty(same, tr, b, x, elem, L=2, tier="quick"):
    name = "c08_cloneempty_%s__%s_%s_to_%s_%s__L%d" % ("same" if same else "in", tr, b, x, elem, L)
    call = "c08::clone_empty_h::<%s, %s, %s, %s>(%s, %s)" % (TR[tr], bk(b, elem, L), bk(x, elem, 2), elem, P(L, "s%d" % L, "s%d" % L), "true" if same else "false")
    props = ["C08"] + (["C11"] if x in ("stack", "stackn") else []) + (["C05"] if "reloc" in (b, x) else [])
    H(name, call, props, tier=tier, unwind=unwind_for(elem, L + 2), dims=dict(L=L, elem=elem, backend=b, target_backend=x, traits=tr, shape_symbolic=True), role="c08_cloneempty")


def lazy(src, how, depth, uses, tr, b, by, elem, L=2, tier="quick", also=()):
    if (how == "Splice" or uses >= 2) and by in ("heap", "reloc"):
        # a splice at a symbolic position into resizable storage has a symbolic allocation size; several
        # consecutive pushes/inserts into a possibly-full heap vector multiply reallocation paths
        by = "stack"
    name = "c09_lazy_%s_%s_d%d_u%d__%s_%s_%s_%s__L%d" % (src.lower(), how.lower(), depth, uses, tr, b, by, elem, L)
    call = "c08::lazy_h::<%s, %s, %s, %s>(%s, c08::LzSrc::%s, c08::LzUse::%s, %d, %d)" % (
        TR[tr], bk(b, elem, L + 1), bk(by, elem, L + 3), elem, P(L + 1, "s%d" % L, "s%d" % L, L + 3, "s1", "s%d" % (L + 1)), src, how, depth, uses)
    H(name, call, ["C09"] + list(also), tier=tier, unwind=unwind_for(elem, L + 4), dims=dict(L=L, source=src, consumption=how, chain_depth=depth, consumptions=uses, elem=elem, backend=b, backend2=by, traits=tr, shape_symbolic=True), role="c09_lazy_%s" % src.lower())


LSRC = ["ElemRef", "ElemMut", "Handle", "Drained"]
LUSE = ["Push", "Insert", "Splice", "Downcast"]


def define():
    clone("Nothing", "clone", "heap", "B3D")
    clone("Nothing", "clone", "heap", "B3D", ln=0)
    clone("RemoveClone", "clone", "heap", "B3D", ln=1, tier="rot2")
    clone("Nothing", "clone", "stack", "W8D", L=2)
    clone("PushClone", "clone", "heap", "W8D", L=2)
    clone("RemoveOrig", "clone", "stack", "B3D", L=2)
    clone("MutateClone", "call", "heap", "B3D", L=2)
    clone("ClearOrig", "clone", "reloc", "B3D", L=2)
    clone("Nothing", "clone", "heap", "Z0D")
    # a backend that starts with room for one element: the clone must still get room for all of them
    clone("Nothing", "clone", "reloc1", "B3D", L=2)
    clone("PushClone", "clone", "reloc1", "B3D", L=3, tier="rot2")
    clone("Nothing", "clone", "heap", "W8", L=2)
    clone("Nothing", "clone", "stackn", "B3D", L=2, slack=0)
    clone_empty(True, "clone", "heap", "heap", "B3D")
    clone_empty(True, "clone", "stack", "stack", "W8D")
    clone_empty(False, "clone", "heap", "stack", "W8D")
    clone_empty(False, "clone", "stack", "heap", "B3D")
    clone_empty(False, "clone", "heap", "stackn", "B3D")
    clone_empty(False, "csend", "heap", "reloc", "B3D")
    # C09 quick: every source kind and every consumption kind once, depths 1..3, uses 0..3
    lazy("ElemRef", "Push", 1, 2, "clone", "heap", "heap", "B3D", also=("C13",))   # also: what a lazy clone reports about itself
    lazy("ElemMut", "Insert", 2, 1, "clone", "heap", "stack", "W8D")
    lazy("Handle", "Splice", 3, 1, "clone", "stack", "stack", "B3D")
    lazy("Drained", "Downcast", 2, 2, "clone", "heap", "heap", "B3D")
    lazy("ElemRef", "Insert", 3, 3, "call", "heap", "heap", "B3D")
    lazy("Handle", "Push", 1, 0, "clone", "heap", "heap", "W8D")
    lazy("Handle", "Push", 1, 0, "clone", "heap", "heap", "B3D", also=("C13",))
    lazy("Drained", "Push", 1, 1, "clone", "heap", "heap", "B3D", also=("C13",), tier="rot2")
    lazy("ElemRef", "Downcast", 1, 1, "clone", "heap", "heap", "D24D", L=1)
    # zero-sized element with drop glue and an observable Clone
    lazy("ElemRef", "Push", 1, 1, "clone", "heap", "heap", "Z0D")
    lazy("Handle", "Insert", 2, 2, "clone", "heap", "stack", "Z0D", tier="rot2")
    # rotation pool (quick, by seed): other cloneable constraint sets / backends on the cheap 3-byte element
    for tr in ("csend", "csync", "call"):
        for b in ("heap", "stack", "reloc", "stackn"):
            for a in ("Nothing", "PushClone", "RemoveOrig", "MutateClone", "ClearOrig"):
                if b in ("stack", "stackn"):
                    clone(a, tr, b, "B3D", L=2, tier="rot12")
                else:
                    clone(a, tr, b, "B3D", L=2, ln=(2 if a != "Nothing" else 1), tier="rot12")
    # thorough: every after-step x backend x element kind on the plain Cloneable set; the other cloneable constraint
    # sets differ only in marker traits (same clone_fn), so they get three after-steps each
    for b in ("heap", "stack", "reloc", "stackn"):
        for elem in ("B3D", "W8D", "W8", "Z0D"):
            if elem == "Z0D" and b != "heap":
                continue
            for a in AFTERS:
                if b in ("stack", "stackn"):
                    clone(a, "clone", b, elem, L=3, tier="thorough")
                else:
                    for n in (1, 3):
                        clone(a, "clone", b, elem, L=3, ln=n, tier="thorough")
    # (no B1 instance: a 1-byte element stores its identity in a nibble, which cannot carry the "n-th clone = id + 8n"
    #  scheme; the thorough measurement showed the harness's own model failing there, not the library)
    for tr in ("csend", "csync", "call"):
        for b in ("heap", "stack"):
            for a in ("Nothing", "PushClone", "MutateOrig"):
                clone(a, tr, b, "B3D", L=3, ln=None if b == "stack" else 2, tier="thorough")
    for b in ("heap", "stack", "reloc", "stackn"):
        for x in ("heap", "stack", "reloc", "stackn"):
            clone_empty(False, "clone", b, x, "W8D", tier="thorough")
        clone_empty(True, "clone", b, b, "B3D", tier="thorough")
    for src in LSRC:
        for how in LUSE:
            for depth in (1, 2, 3):
                for uses in (0, 1, 2, 3):
                    lazy(src, how, depth, uses, "clone", "heap", "heap", "B3D", tier="thorough" if (depth, uses) in ((1, 1), (2, 2), (3, 3), (3, 0)) else "rot32")
    for elem in ("W8D", "D24D"):
        for src in LSRC:
            lazy(src, "Push", 2, 2, "clone", "heap", "stack", elem, tier="thorough")
