"""Engine B: obligations over the MIR of the loop-free integer kernels of any_vec, decided by z3
(cross-checked by cvc5) over the full 64-bit range, for both overflow-check modes
(`on` = dev profile = what the test-suite and Kani see; `off` = release profile = what users run).

For each kernel: dump MIR of /repo's current tree, execute every path symbolically (symex.py),
and for every path P and obligation O ask the solver for  pc(P) AND NOT O  (unsat expected).
A sat answer is a concrete counterexample (model printed; replayed natively where a template exists).
"""
import json
import os
import re
import shutil
import subprocess
import tempfile
import time
from pathlib import Path

from . import mir as M
from . import symex as S
from .symex import bvconst

HERE = Path(__file__).resolve().parent
ENV = dict(os.environ, CARGO_NET_OFFLINE="true", CARGO_TERM_COLOR="never")
ENV.pop("RUSTFLAGS", None)


# ------------------------------------------------------------------ MIR dump
def dump_mir(repo, work, mode, features_default=True):
    """MIR text of a scratch copy of the repo (so /repo/target is never touched)"""
    work = Path(work)
    work.mkdir(parents=True, exist_ok=True)
    scratch = work / ("mirsrc_%s" % mode)
    if scratch.exists():
        shutil.rmtree(scratch)
    scratch.mkdir(parents=True)
    for item in ("Cargo.toml", "Cargo.lock", "src"):
        s = Path(repo) / item
        if s.is_dir():
            shutil.copytree(s, scratch / item)
        elif s.exists():
            shutil.copy(s, scratch / item)
    # dev-dependencies / benches are irrelevant for --lib; strip them so nothing needs resolving
    toml = (scratch / "Cargo.toml").read_text()
    toml = re.sub(r"\[dev-dependencies\].*?(?=\n\[|\Z)", "", toml, flags=re.S)
    toml = re.sub(r"\[\[bench\]\].*?(?=\n\[|\Z)", "", toml, flags=re.S)
    (scratch / "Cargo.toml").write_text(toml + "\n[workspace]\n")
    lock = scratch / "Cargo.lock"
    if lock.exists():
        lock.unlink()
    cmd = ["cargo", "+nightly", "rustc", "--offline", "--lib", "--target-dir", str(work / "mir_target")]
    if not features_default:
        cmd.append("--no-default-features")
    cmd += ["--", "-Zunpretty=mir", "-C", "debug-assertions=off", "-C", "overflow-checks=%s" % mode]
    p = subprocess.run(cmd, cwd=scratch, env=ENV, stdout=subprocess.PIPE, stderr=subprocess.PIPE, text=True)
    shutil.rmtree(scratch, ignore_errors=True)
    if p.returncode != 0 or "fn " not in p.stdout:
        raise RuntimeError("MIR dump failed: " + p.stderr[-600:])
    return p.stdout


# ------------------------------------------------------------------ solver
class Solver:
    def __init__(self, binary="z3", args=("-in",), timeout_s=60):
        self.binary, self.args, self.timeout_s = binary, list(args), timeout_s
        self.time = 0.0
        self.queries = 0

    def check(self, decls, asserts, want_model=False):
        """-> ('sat'|'unsat'|'unknown'|'error', model_text). Any `(error` in the solver output makes the
        answer 'error' (an old z3 can drop an assertion it cannot parse and still answer)."""
        r, out = self._run(decls, asserts, False)
        if r == "unknown" and self.binary == "z3":
            # a time-out under load or an incomplete tactic: ask the other installed solvers before giving up
            for alt in (Solver("z3-new", ("-in",), self.timeout_s), Solver("cvc5", ("--lang", "smt2", "--tlimit=%d" % (self.timeout_s * 1000)), self.timeout_s)):
                alt_is_z3 = alt.binary.startswith("z3")
                r2, out2 = alt._run(decls, asserts, False, z3_options=alt_is_z3)
                self.time += alt.time
                self.queries += 1
                if r2 in ("sat", "unsat"):
                    if r2 == "sat" and want_model:
                        r3, out3 = alt._run(decls, asserts, True, z3_options=alt_is_z3)
                        if r3 == "sat":
                            return r3, out3
                    return r2, out2
        if r == "sat" and want_model:
            r2, out2 = self._run(decls, asserts, True)
            if r2 == "sat":
                return r2, out2
        return r, out

    def _run(self, decls, asserts, model, z3_options=None):
        lines = []
        if not (self.binary == "z3" if z3_options is None else z3_options):
            lines += ["(set-option :produce-models true)", "(set-logic ALL)"]
        else:
            lines += ["(set-option :timeout %d)" % (self.timeout_s * 1000)]
        for n, sort in sorted(decls.items()):
            lines.append("(declare-const %s %s)" % (n, sort))
        for a in asserts:
            lines.append("(assert %s)" % a)
        lines.append("(check-sat)")
        if model:
            lines.append("(get-model)")
        t0 = time.time()
        try:
            p = subprocess.run([self.binary] + self.args, input="\n".join(lines) + "\n", stdout=subprocess.PIPE, stderr=subprocess.STDOUT, text=True, timeout=self.timeout_s + 20)
            out = p.stdout
        except subprocess.TimeoutExpired:
            out = "unknown"
        self.time += time.time() - t0
        self.queries += 1
        first = out.strip().splitlines()[0] if out.strip() else "error"
        if "(error" in out or first not in ("sat", "unsat", "unknown"):
            return "error", out[:600]
        return first, out


def model_values(model_text, names):
    vals = {}
    for n in names:
        m = re.search(r"\(define-fun %s \(\) [^\n]*\n?\s*(#x[0-9a-fA-F]+|#b[01]+|true|false|\(_ bv(\d+) \d+\))\)" % re.escape(n), model_text)
        if m:
            v = m.group(1)
            if v.startswith("#x"):
                vals[n] = int(v[2:], 16)
            elif v.startswith("#b"):
                vals[n] = int(v[2:], 2)
            elif v in ("true", "false"):
                vals[n] = (v == "true")
            else:
                vals[n] = int(m.group(2))
    return vals


# ------------------------------------------------------------------ helper terms
def zx(t, by=64):
    return "((_ zero_extend %d) %s)" % (by, t)


def AND(*xs):
    xs = [x for x in xs if x != "true"]
    if not xs:
        return "true"
    return "(and %s)" % " ".join(xs) if len(xs) > 1 else xs[0]


def OR(*xs):
    return "(or %s)" % " ".join(xs) if len(xs) > 1 else xs[0]


def NOT(x):
    return "(not %s)" % x


def IMP(a, b):
    return "(=> %s %s)" % (a, b)


def ISIZE_MAX():
    return bvconst((1 << 63) - 1)


class Spec:
    """one kernel: where to find it, which input invariants to assume, and the obligations per outcome"""

    def __init__(self, key, file_part, method, props, assume=None, on_return=None, on_panic=None, doc="", nth=0, allow_unsupported=False, vec_root="O:vecraw", prelude=None):
        self.key, self.file_part, self.method, self.props = key, file_part, method, props
        self.vec_root = vec_root
        # prelude = (file_part, method): the kernel is executed on the *result* of this constructor (arguments n1, n2, ...),
        # so that the obligations speak about the operation's inputs and not about the handle's private fields
        self.prelude = prelude
        self.assume, self.on_return, self.on_panic, self.doc, self.nth = assume, on_return, on_panic, doc, nth


def sym(ex, p, root, path, typ="usize"):
    """the INITIAL value of an input cell: its canonical lazily-created symbol (declared here if the
    function never read it), independent of what the function wrote there later"""
    name = S.sanitize("in_%s__%s" % (root.split(":", 1)[1], "_".join(str(x if not isinstance(x, tuple) else x[1]) for x in path)))
    p.decls.setdefault(name, "Bool" if typ == "bool" else "(_ BitVec 64)")
    return name


def events(p, name):
    return [e for e in p.events if e[0] == name]


# ------------------------------------------------------------------ the kernels
def spec_into_range():
    def bounds(ex, p):
        ln = zx(p.cells[("L:_1", ())][1], 1)
        sk, sv = "start_bound_kind", zx("start_bound_val", 1)
        ek, ev = "end_bound_kind", zx("end_bound_val", 1)
        for n in ("start_bound_kind", "start_bound_val", "end_bound_kind", "end_bound_val"):
            p.decls.setdefault(n, "(_ BitVec 64)")
        one = bvconst(1, 65)
        Sm = "(ite (= %s %s) %s (ite (= %s %s) (bvadd %s %s) %s))" % (sk, bvconst(0), sv, sk, bvconst(1), sv, one, bvconst(0, 65))
        Em = "(ite (= %s %s) (bvadd %s %s) (ite (= %s %s) %s %s))" % (ek, bvconst(0), ev, one, ek, bvconst(1), ev, ln)
        valid = AND("(bvule %s %s)" % (Sm, Em), "(bvule %s %s)" % (Em, ln))
        return Sm, Em, valid

    def assume(ex, p):
        for n in ("start_bound_kind", "end_bound_kind"):
            p.decls.setdefault(n, "(_ BitVec 64)")
        return [("bvult start_bound_kind 3", "(bvult start_bound_kind %s)" % bvconst(3)), ("bvult end_bound_kind 3", "(bvult end_bound_kind %s)" % bvconst(3))]

    def on_return(ex, p):
        Sm, Em, valid = bounds(ex, p)
        st = ex.read_cell(p, "L:_0", (0,), "usize")[1]
        en = ex.read_cell(p, "L:_0", (1,), "usize")[1]
        return [("returns only for a valid range (start <= end <= len, mathematically)", valid),
                ("returned start/end are the mathematical bounds", AND("(= %s %s)" % (zx(st, 1), Sm), "(= %s %s)" % (zx(en, 1), Em)))]

    def on_panic(ex, p):
        Sm, Em, valid = bounds(ex, p)
        return [("panics only for an invalid range", NOT(valid))]
    return Spec("into_range", "into_range", "into_range", ["C02"], assume, on_return, on_panic, "RangeBounds -> start..end for every RangeBounds implementation (arbitrary Bound results)")


def _raw_inputs(ex, p):
    ln = sym(ex, p, "O:arg1", (S.POS["vec_len"],))
    cap = sym(ex, p, "O:arg1", ("$capacity",))
    return ln, cap


def spec_reserve(method, ev_name):
    def assume(ex, p):
        ln, cap = _raw_inputs(ex, p)
        return [("len <= capacity", "(bvule %s %s)" % (ln, cap))]

    def on_return(ex, p):
        ln, cap = _raw_inputs(ex, p)
        add = p.cells[("L:_2", ())][1]
        need = "(bvadd %s %s)" % (zx(ln, 1), zx(add, 1))
        fits = "(bvule %s %s)" % (need, zx(bvconst((1 << 64) - 1), 1))
        evs = events(p, ev_name)
        other = [e for e in p.events if e[0] != ev_name]
        obs = [("returns normally only if len + additional is representable", fits)]
        if not evs:
            obs.append(("no capacity change only if capacity already suffices", "(bvuge %s %s)" % (zx(cap, 1), need)))
        else:
            n = ex.as_bv(evs[0][2][1])[1]
            obs.append(("grows only if capacity is insufficient", "(bvult %s %s)" % (zx(cap, 1), need)))
            obs.append(("requests exactly the shortfall", "(= (bvadd %s %s) %s)" % (zx(cap, 1), zx(n, 1), need)))
        obs.append(("at most one capacity call, of the right kind", "true" if (len(evs) <= 1 and not other) else "false"))
        return obs

    def on_panic(ex, p):
        ln, cap = _raw_inputs(ex, p)
        add = p.cells[("L:_2", ())][1]
        need = "(bvadd %s %s)" % (zx(ln, 1), zx(add, 1))
        return [("panics only when len + additional is not representable", "(bvugt %s %s)" % (need, zx(bvconst((1 << 64) - 1), 1)))]
    return Spec("AnyVecRaw::" + method, "src/any_vec_raw.rs", method, ["C10"], assume, on_return, on_panic, "shortfall arithmetic of %s" % method)


def spec_shrink(method):
    def assume(ex, p):
        ln, cap = _raw_inputs(ex, p)
        return [("len <= capacity", "(bvule %s %s)" % (ln, cap))]

    def on_return(ex, p):
        ln, cap = _raw_inputs(ex, p)
        evs = events(p, "resize")
        obs = [("only resize calls", "true" if all(e[0] == "resize" for e in p.events) and len(evs) <= 1 else "false")]
        if evs:
            n = ex.as_bv(evs[0][2][1])[1]
            obs.append(("never asks for more than the current capacity", "(bvule %s %s)" % (n, cap)))
            obs.append(("never asks for less than len", "(bvuge %s %s)" % (n, ln)))
            if method == "shrink_to":
                mn = p.cells[("L:_2", ())][1]
                obs.append(("asks for exactly max(len, min_capacity)", "(= %s (ite (bvult %s %s) %s %s))" % (n, ln, mn, mn, ln)))
            else:
                obs.append(("asks for exactly len", "(= %s %s)" % (n, ln)))
        else:
            if method == "shrink_to":
                mn = p.cells[("L:_2", ())][1]
                obs.append(("skips the resize only if nothing can be released", "(bvuge (ite (bvult %s %s) %s %s) %s)" % (ln, mn, mn, ln, cap)))
            else:
                obs.append(("skips the resize only if capacity == len", "(= %s %s)" % (ln, cap)))
        return obs

    def on_panic(ex, p):
        return [("never panics", "false")]
    return Spec("AnyVecRaw::" + method, "src/any_vec_raw.rs", method, ["C10"], assume, on_return, on_panic, "capacity target of %s" % method)


def spec_index_check():
    def on_return(ex, p):
        ln = sym(ex, p, "O:arg1", (S.POS["vec_len"],))
        return [("returns only for index < len", "(bvult %s %s)" % (p.cells[("L:_2", ())][1], ln))]

    def on_panic(ex, p):
        ln = sym(ex, p, "O:arg1", (S.POS["vec_len"],))
        return [("panics only for index >= len", "(bvuge %s %s)" % (p.cells[("L:_2", ())][1], ln))]
    return Spec("AnyVecRaw::index_check", "src/any_vec_raw.rs", "index_check", ["C01", "C13"], None, on_return, on_panic, "bounds test")


def _heap_inputs(ex, p):
    size = sym(ex, p, "O:arg1", (S.POS["heap_size"],))
    es = sym(ex, p, "O:arg1", (S.POS["heap_layout"], "size"))
    al = sym(ex, p, "O:arg1", (S.POS["heap_layout"], "align"))
    return size, es, al


def _layout_ok(sz, al):
    # Layout::from_size_align validity: size <= isize::MAX - (align - 1)
    return "(bvule %s (bvsub %s (bvsub %s %s)))" % (sz, ISIZE_MAX(), al, bvconst(1))


def _heap_invariant(ex, p):
    size, es, al = _heap_inputs(ex, p)
    prod = "(bvmul %s %s)" % (zx(es), zx(size))
    return [("alignment is a power of two, at most 2^29 (Layout invariant)", AND("(not (= %s %s))" % (al, bvconst(0)), "(= (bvand %s (bvsub %s %s)) %s)" % (al, al, bvconst(1), bvconst(0)), "(bvule %s %s)" % (al, bvconst(1 << 29)))),
            ("the current block (capacity x element size) is a valid layout", OR("(= %s %s)" % (es, bvconst(0)), "(bvule %s %s)" % (prod, zx("(bvsub %s (bvsub %s %s))" % (ISIZE_MAX(), al, bvconst(1))))))]


def spec_heap_resize():
    def on_return(ex, p):
        size, es, al = _heap_inputs(ex, p)
        new = p.cells[("L:_2", ())][1]
        obs = []
        old_bytes = "(bvmul %s %s)" % (es, size)
        new_bytes_wide = "(bvmul %s %s)" % (zx(es), zx(new))
        new_bytes = "(bvmul %s %s)" % (es, new)
        allocs, reallocs, deallocs = events(p, "alloc"), events(p, "realloc"), events(p, "dealloc")
        for e in events(p, "layout_unchecked"):
            s_, a_ = ex.as_bv(e[2][0])[1], ex.as_bv(e[2][1])[1]
            obs.append(("every Layout built unchecked satisfies from_size_align's precondition (size <= isize::MAX rounded)", _layout_ok(s_, a_)))
        nev = len(allocs) + len(reallocs) + len(deallocs)
        obs.append(("at most one allocator call", "true" if nev <= 1 else "false"))
        if nev == 0:
            obs.append(("no allocator call only if nothing changes or elements are zero-sized", OR("(= %s %s)" % (size, new), "(= %s %s)" % (es, bvconst(0)))))
        for e in allocs:
            sz, a_ = e[2][0][1], e[2][1][1]
            obs.append(("alloc only from the empty state, for exactly new_size x element size bytes, element alignment",
                        AND("(= %s %s)" % (size, bvconst(0)), "(= %s %s)" % (zx(sz), new_bytes_wide), "(= %s %s)" % (a_, al), "(not (= %s %s))" % (sz, bvconst(0)))))
            obs.append(("alloc request is a valid layout", _layout_ok(sz, a_)))
        for e in reallocs:
            osz, oal, nsz = e[2][1][1], e[2][2][1], ex.as_bv(e[2][3])[1]
            obs.append(("realloc presents exactly the layout of the live block", AND("(= %s %s)" % (osz, old_bytes), "(= %s %s)" % (oal, al), "(not (= %s %s))" % (size, bvconst(0)))))
            obs.append(("realloc asks for exactly new_size x element size bytes (non-zero, valid)", AND("(= %s %s)" % (zx(nsz), new_bytes_wide), "(not (= %s %s))" % (nsz, bvconst(0)), _layout_ok(nsz, al))))
        for e in deallocs:
            osz, oal = e[2][1][1], e[2][2][1]
            obs.append(("dealloc only when shrinking to zero, with exactly the layout of the live block",
                        AND("(= %s %s)" % (new, bvconst(0)), "(= %s %s)" % (osz, old_bytes), "(= %s %s)" % (oal, al), "(not (= %s %s))" % (size, bvconst(0)))))
        fin = ex.read_cell(p, "O:arg1", (S.POS["heap_size"],), "usize")[1]
        obs.append(("capacity field ends as new_size", "(= %s %s)" % (fin, new)))
        if deallocs:
            ptr = ex.as_bv(ex.read_cell(p, "O:arg1", (S.POS["heap_ptr"],), "usize"))[1]
            obs.append(("after giving the block back the storage pointer is non-null and aligned for the element type (typed views of the empty vector are built from it)",
                        AND("(not (= %s %s))" % (ptr, bvconst(0)), "(= (bvand %s (bvsub %s %s)) %s)" % (ptr, al, bvconst(1), bvconst(0)))))
        return obs

    def on_panic(ex, p):
        size, es, al = _heap_inputs(ex, p)
        new = p.cells[("L:_2", ())][1]
        new_bytes_wide = "(bvmul %s %s)" % (zx(es), zx(new))
        lim = zx("(bvsub %s (bvsub %s %s))" % (ISIZE_MAX(), al, bvconst(1)))
        obs = [("panics only when new_size x element size is not a valid allocation size (or the allocator failed)",
                OR("(bvugt %s %s)" % (new_bytes_wide, lim), "true" if "handle_alloc_error" in str(p.outcome) or "unwrap_or_else" in str(p.outcome) else "false"))]
        # the chunk is dropped during unwinding (Drop = resize(0) -> dealloc with the layout computed from `size`):
        # a refused request must leave (pointer, size) describing the block that is still owned
        fin = ex.as_bv(ex.read_cell(p, "O:arg1", (S.POS["heap_size"],), "usize"))[1]
        ptr0 = sym(ex, p, "O:arg1", (S.POS["heap_ptr"],))
        ptr = ex.as_bv(ex.read_cell(p, "O:arg1", (S.POS["heap_ptr"],), "usize"))[1]
        if not (events(p, "alloc") or events(p, "realloc") or events(p, "dealloc")):
            obs.append(("a refused request leaves the recorded capacity and the storage pointer unchanged (the chunk is still dropped while unwinding)",
                        AND("(= %s %s)" % (fin, size), "(= %s %s)" % (ptr, ptr0))))
        return obs
    return Spec("HeapMem::resize", "src/mem/heap.rs", "resize", ["C18", "C10", "C12"], _heap_invariant, on_return, on_panic, "layouts presented to alloc/realloc/dealloc (one inductive step from any valid HeapMem)")


def spec_heap_from_raw_parts():
    def on_return(ex, p):
        h = ex.as_bv(p.cells[("L:_1", ())])[1]
        n = ex.as_bv(p.cells[("L:_3", ())])[1]
        mem = ex.as_bv(ex.read_cell(p, "L:_0", (S.POS["heap_ptr"],), "usize"))[1]
        size = ex.as_bv(ex.read_cell(p, "L:_0", (S.POS["heap_size"],), "usize"))[1]
        al = ex.as_bv(ex.read_cell(p, "L:_0", (S.POS["heap_layout"], "align"), "usize"))[1]
        al_in = ex.as_bv(ex.read_cell(p, "L:_2", ("align",), "usize"))[1]
        es_in = ex.as_bv(ex.read_cell(p, "L:_2", ("size",), "usize"))[1]
        es = ex.as_bv(ex.read_cell(p, "L:_0", (S.POS["heap_layout"], "size"), "usize"))[1]
        return [("the rebuilt chunk records the capacity and element layout it was given", AND("(= %s %s)" % (size, n), "(= %s %s)" % (al, al_in), "(= %s %s)" % (es, es_in))),
                ("the rebuilt chunk adopts the handle; only where nothing is allocated may it use another non-null pointer aligned for the element type",
                 OR("(= %s %s)" % (mem, h), AND(OR("(= %s %s)" % (n, bvconst(0)), "(= %s %s)" % (es_in, bvconst(0))), "(not (= %s %s))" % (mem, bvconst(0)), "(= (bvand %s (bvsub %s %s)) %s)" % (mem, al_in, bvconst(1), bvconst(0)))))]

    def on_panic(ex, p):
        return [("never panics", "false")]
    return Spec("HeapMem::from_raw_parts", "src/mem/heap.rs", "from_raw_parts", ["C17", "C12"], _elem_layout_invariant("O:arg2"), on_return, on_panic, "raw parts are adopted unchanged")


def spec_heap_expand():
    def assume(ex, p):
        size, es, al = _heap_inputs(ex, p)
        add = p.cells[("L:_2", ())][1]
        return [("caller contract: size + additional is representable", "(bvule (bvadd %s %s) %s)" % (zx(size, 1), zx(add, 1), zx(bvconst((1 << 64) - 1), 1)))]

    def on_return(ex, p):
        size, es, al = _heap_inputs(ex, p)
        add = p.cells[("L:_2", ())][1]
        evs = events(p, "resize")
        obs = [("exactly one resize", "true" if len(evs) == 1 and len(p.events) == 1 else "false")]
        if evs:
            n = ex.as_bv(evs[0][2][1])[1]
            obs.append(("new capacity >= size + additional", "(bvuge %s (bvadd %s %s))" % (zx(n, 1), zx(size, 1), zx(add, 1))))
            obs.append(("geometric growth: new capacity >= 2 x size whenever 2 x size is representable", OR("(bvuge %s (bvmul %s %s))" % (zx(n, 1), zx(size, 1), bvconst(2, 65)), "(bvugt (bvmul %s %s) %s)" % (zx(size, 1), bvconst(2, 65), zx(bvconst((1 << 64) - 1), 1)))))
        return obs

    def on_panic(ex, p):
        size, es, al = _heap_inputs(ex, p)
        return [("panics only if doubling overflows", "(bvugt (bvmul %s %s) %s)" % (zx(size, 1), bvconst(2, 65), zx(bvconst((1 << 64) - 1), 1)))]
    return Spec("HeapMem::expand", "src/mem/heap.rs", "expand", ["C10"], assume, on_return, on_panic, "doubling growth (amortisation lemma)")


def _elem_layout_invariant(root):
    def assume(ex, p):
        es, al = sym(ex, p, root, ("size",)), sym(ex, p, root, ("align",))
        return [("the element Layout is the layout of a Rust type: alignment a power of two <= 2^29, size a multiple of it",
                 AND("(not (= %s %s))" % (al, bvconst(0)), "(= (bvand %s (bvsub %s %s)) %s)" % (al, al, bvconst(1), bvconst(0)), "(bvule %s %s)" % (al, bvconst(1 << 29)),
                     "(= (bvand %s (bvsub %s %s)) %s)" % (es, al, bvconst(1), bvconst(0))))]
    return assume


def stack_capacity_cell(ex, p):
    """the capacity recorded in the StackMem returned by Stack::build: the struct's only integer field (named `size` today)"""
    names = [pa[0][2:] for (r, pa) in p.cells if r == "L:_0" and len(pa) == 1 and isinstance(pa[0], str) and pa[0].startswith("n:") and p.cells[(r, pa)][0] == "bv"]
    pick = [n for n in names if n in ("size", "capacity", "cap")] or names
    if len(pick) != 1:
        raise KeyError("capacity field of the returned StackMem not identifiable among %s" % names)
    return ex.read_cell(p, "L:_0", ("n:" + pick[0],), "usize")[1]


def spec_stack_build():
    def on_return(ex, p):
        es = sym(ex, p, "O:arg2", ("size",))
        p.decls.setdefault("cg_SIZE", "(_ BitVec 64)")
        size = stack_capacity_cell(ex, p)
        divs = [n for n in p.notes if n[0] == "div"]
        if not divs:
            # no division on this path: state floor(SIZE / size) directly (128-bit products; fine for finding a counterexample)
            c1 = "(bvadd %s %s)" % (zx(size), bvconst(1, 128))
            return [("capacity is usize::MAX for zero-sized elements, otherwise floor(SIZE / element size): capacity x size <= SIZE < (capacity + 1) x size",
                     "(ite (= %s %s) (= %s %s) (and (bvule (bvmul %s %s) %s) (bvult %s (bvmul %s %s))))" % (
                         es, bvconst(0), size, bvconst((1 << 64) - 1), zx(size), zx(es), zx("cg_SIZE"), zx("cg_SIZE"), c1, zx(es)))]
        _, q, r, x, y = divs[0]
        # floor division stated on the lemma's own product term: SIZE = capacity x size + r, r < size
        return [("capacity is floor(SIZE / element size): SIZE = capacity x size + r with r < size",
                 AND("(not (= %s %s))" % (es, bvconst(0)), "(= %s %s)" % (size, q), "(= %s %s)" % (x, "cg_SIZE"), "(= %s %s)" % (y, es),
                     "(= %s (bvadd (bvmul %s %s) %s))" % (zx("cg_SIZE"), zx(q), zx(y), zx(r)), "(bvult %s %s)" % (r, es)))]

    def on_panic(ex, p):
        return [("never panics", "false")]
    return Spec("Stack::build", "src/mem/stack.rs", "build", ["C11"], _elem_layout_invariant("O:arg2"), on_return, on_panic, "capacity computation, SIZE and element size free 64-bit variables (division by fresh q,r + division lemma)")


def spec_stackn_build():
    def fits(ex, p):
        es = sym(ex, p, "O:arg2", ("size",))
        for n in ("cg_SIZE", "cg_N"):
            p.decls.setdefault(n, "(_ BitVec 64)")
        return "(bvule (bvmul %s %s) %s)" % (zx("cg_N"), zx(es), zx("cg_SIZE"))

    def on_return(ex, p):
        return [("builds only if N elements fit in SIZE bytes (mathematically)", fits(ex, p))]

    def on_panic(ex, p):
        return [("panics only if N elements do not fit", NOT(fits(ex, p)))]
    return Spec("StackN::build", "src/mem/stack_n.rs", "build", ["C11"], _elem_layout_invariant("O:arg2"), on_return, on_panic, "N x element size <= SIZE, all three free 64-bit variables")


def spec_iter_len(method):
    def assume(ex, p):
        idx = sym(ex, p, "O:arg1", (S.POS["iter_index"],))
        end = sym(ex, p, "O:arg1", (S.POS["iter_end"],))
        return [("cursor invariant index <= end", "(bvule %s %s)" % (idx, end))]

    def on_return(ex, p):
        idx = sym(ex, p, "O:arg1", (S.POS["iter_index"],))
        end = sym(ex, p, "O:arg1", (S.POS["iter_end"],))
        if method == "len":
            r = p.cells[("L:_0", ())][1]
            return [("len() == end - index", "(= %s (bvsub %s %s))" % (r, end, idx))]
        lo = ex.read_cell(p, "L:_0", (0,), "usize")[1]
        d = ex.read_cell(p, "L:_0", (1, "discr"), "isize")[1]
        hi = ex.read_cell(p, "L:_0", (1, ("as", "Some"), 0), "usize")[1]
        return [("size_hint() == (end - index, Some(end - index))", AND("(= %s (bvsub %s %s))" % (lo, end, idx), "(= %s %s)" % (d, bvconst(1)), "(= %s (bvsub %s %s))" % (hi, end, idx)))]

    def on_panic(ex, p):
        return [("never panics under the cursor invariant", "false")]
    return Spec("Iter::" + method, "src/iter.rs", method, ["C14"], assume, on_return, on_panic, "cursor arithmetic")


def _vec_inputs(ex, p):
    ln = sym(ex, p, "O:arg1", ("$len",))
    cap = sym(ex, p, "O:arg1", ("$capacity",))
    es = sym(ex, p, "O:arg1", ("$layout", "size"))
    return ln, cap, es


def spec_bytes(method):
    def base_of(ex, p):
        # the storage pointer is whatever as_ptr/as_mut_ptr returned
        for (r, pa), v in p.cells.items():
            if pa and pa[-1] == "$base":
                return v[1]
        return None

    def assume(ex, p):
        ln, cap, es = _vec_inputs(ex, p)
        # bounded instead of the general `capacity x size <= isize::MAX` (a 128-bit product the solvers do not finish):
        # element size <= 2^20 bytes and capacity <= 2^40 elements, which implies it
        return [("len <= capacity", "(bvule %s %s)" % (ln, cap)),
                ("element size <= 2^20", "(bvule %s %s)" % (es, bvconst(1 << 20))),
                ("capacity <= 2^40", "(bvule %s %s)" % (cap, bvconst(1 << 40)))]

    def on_return(ex, p):
        ln, cap, es = _vec_inputs(ex, p)
        sl = events(p, "from_raw_parts")
        obs = [("exactly one slice is built", "true" if len(sl) == 1 else "false")]
        if sl:
            ptr, cnt = ex.as_bv(sl[0][2][0])[1], ex.as_bv(sl[0][2][1])[1]
            b = base_of(ex, p)
            if b is None:
                obs.append(("slice is built from the storage pointer", "false"))
            elif method == "spare_bytes_mut":
                obs.append(("spare bytes start right after the initialised elements (base + len x size)", "(= %s (bvadd %s (bvmul %s %s)))" % (ptr, b, ln, es)))
                obs.append(("spare bytes cover (capacity - len) x size bytes", "(= %s (bvmul (bvsub %s %s) %s))" % (cnt, cap, ln, es)))
            else:
                obs.append(("byte view starts at the storage base", "(= %s %s)" % (ptr, b)))
                obs.append(("byte view covers len x size bytes", "(= %s (bvmul %s %s))" % (cnt, ln, es)))
        return obs

    def on_panic(ex, p):
        return [("never panics for a valid vector", "false")]
    return Spec("AnyVec::" + method, "src/any_vec.rs", method, ["C12"], assume, on_return, on_panic, "offset/length arithmetic of the byte views")


def spec_iter_step(method):
    def assume(ex, p):
        idx = sym(ex, p, "O:arg1", (S.POS["iter_index"],))
        end = sym(ex, p, "O:arg1", (S.POS["iter_end"],))
        return [("cursor invariant index <= end", "(bvule %s %s)" % (idx, end))]

    def on_return(ex, p):
        idx = sym(ex, p, "O:arg1", (S.POS["iter_index"],))
        end = sym(ex, p, "O:arg1", (S.POS["iter_end"],))
        d = ex.read_cell(p, "L:_0", ("discr",), "isize")[1]
        fetch = [e for e in p.events if e[0] == "element_ptr_at"]
        idx2 = ex.read_cell(p, "O:arg1", (S.POS["iter_index"],), "usize")[1]
        end2 = ex.read_cell(p, "O:arg1", (S.POS["iter_end"],), "usize")[1]
        obs = [("None exactly when the cursors meet (fused)", "(= (= %s %s) (= %s %s))" % (d, bvconst(0), idx, end))]
        if fetch:
            at = ex.as_bv(fetch[0][2][1])[1]
            if method == "next":
                obs.append(("next() fetches the element at the front cursor and advances it by one", AND("(= %s %s)" % (at, idx), "(= %s (bvadd %s %s))" % (idx2, idx, bvconst(1)), "(= %s %s)" % (end2, end), "(bvule %s %s)" % (idx2, end2))))
            else:
                obs.append(("next_back() lowers the back cursor by one and fetches the element there", AND("(= %s (bvsub %s %s))" % (at, end, bvconst(1)), "(= %s (bvsub %s %s))" % (end2, end, bvconst(1)), "(= %s %s)" % (idx2, idx), "(bvule %s %s)" % (idx2, end2))))
            obs.append(("exactly one element is fetched", "true" if len(fetch) == 1 else "false"))
        else:
            obs.append(("cursors unchanged when nothing is yielded", AND("(= %s %s)" % (idx2, idx), "(= %s %s)" % (end2, end))))
        return obs

    def on_panic(ex, p):
        return [("never panics under the cursor invariant", "false")]
    return Spec("Iter::" + method, "src/iter.rs", method, ["C14"], assume, on_return, on_panic, "one step of the double-ended cursor pair")


def spec_drain_drop():
    def inp(ex, p):
        P_ = S.POS
        return dict(index=sym(ex, p, "O:arg1", (P_["drain_iter"], P_["iter_index"])), iend=sym(ex, p, "O:arg1", (P_["drain_iter"], P_["iter_end"])),
                    start=sym(ex, p, "O:arg1", (P_["drain_start"],)), end=sym(ex, p, "O:arg1", (P_["drain_end"],)), olen=sym(ex, p, "O:arg1", (P_["drain_olen"],)))

    def assume(ex, p):
        i = inp(ex, p)
        return [("start <= iter.index <= iter.end <= end <= original_len", AND("(bvule %s %s)" % (i["start"], i["index"]), "(bvule %s %s)" % (i["index"], i["iend"]), "(bvule %s %s)" % (i["iend"], i["end"]), "(bvule %s %s)" % (i["end"], i["olen"])))]

    def on_return(ex, p):
        i = inp(ex, p)
        drops, moves = events(p, "drop_elements_range"), events(p, "move_elements_at")
        obs = [("exactly one range drop and one tail move", "true" if len(drops) == 1 and len(moves) == 1 and len(p.events) == 2 else "false")]
        if len(drops) == 1 and len(moves) == 1:
            a, b = ex.as_bv(drops[0][2][1])[1], ex.as_bv(drops[0][2][2])[1]
            obs.append(("drops exactly the not yet yielded items [iter.index, iter.end)", AND("(= %s %s)" % (a, i["index"]), "(= %s %s)" % (b, i["iend"]))))
            src, dst, cnt = (ex.as_bv(moves[0][2][k])[1] for k in (1, 2, 3))
            obs.append(("moves the tail [range end, original_len) down to the range start", AND("(= %s %s)" % (src, i["end"]), "(= %s %s)" % (dst, i["start"]), "(= %s (bvsub %s %s))" % (cnt, i["olen"], i["end"]))))
            obs.append(("the vector's len is not restored before the destructors and the move ran", "true" if drops[0][3] is None and moves[0][3] is None else "false"))
            obs.append(("destructors run before the tail is moved", "true" if p.events.index(drops[0]) < p.events.index(moves[0]) else "false"))
        fin = ex.read_cell(p, "O:vecraw", (S.POS["vec_len"],), "usize")[1]
        obs.append(("len ends as original_len - (end - start)", "(= %s (bvsub %s (bvsub %s %s)))" % (fin, i["olen"], i["end"], i["start"])))
        return obs

    def on_panic(ex, p):
        return [("never panics for a well-formed drain", "false")]
    return Spec("Drain::drop", "src/ops/drain.rs", "drop", ["C02", "C06"], assume, on_return, on_panic, "tail / length arithmetic and ordering of Drain::drop for all 64-bit cursor values")


# ---- data movement of the element-wise operations (C01/C05): which bytes move where, for all 64-bit index values
ES_MAX, N_MAX = 1 << 20, 1 << 40   # stated bound (as for the byte views): element size <= 2^20, counts/indices <= 2^40


def _vec_syms(ex, p, root):
    if root == "O:vecraw":
        return sym(ex, p, "O:vecraw", ("$base",)), sym(ex, p, "O:vecraw", ("$layout", "size")), sym(ex, p, "O:vecraw", (S.POS["vec_len"],))
    return sym(ex, p, "O:arg1", (S.POS["vec_mem"], "$base")), sym(ex, p, "O:arg1", ("$layout", "size")), sym(ex, p, "O:arg1", (S.POS["vec_len"],))


def _mv_bounds(es, *counts):
    return AND("(bvule %s %s)" % (es, bvconst(ES_MAX)), *["(bvule %s %s)" % (c, bvconst(N_MAX)) for c in counts])


def _copy_ob(ex, e, src, dst, nbytes, what):
    s_, d_, n_ = (ex.as_bv(e[2][k])[1] for k in (0, 1, 2))
    return (what, AND("(= %s %s)" % (s_, src), "(= %s %s)" % (d_, dst), "(= %s %s)" % (n_, nbytes)))


def spec_remove_consume():
    """Remove::new(ptr, index) ; consume(): stated over the operation's inputs (len, index), not over the handle's fields"""
    def assume(ex, p):
        base, es, ln = _vec_syms(ex, p, "O:vecraw")
        p.decls.setdefault("n2", "(_ BitVec 64)")
        return [("caller contract (index_check): index < len; bounds: element size <= 2^20, len <= 2^40", AND("(bvult n2 %s)" % ln, _mv_bounds(es, ln)))]

    def on_return(ex, p):
        base, es, ln = _vec_syms(ex, p, "O:vecraw")
        cps = events(p, "copy")
        obs = [("at most one block move", "true" if len(cps) <= 1 else "false")]
        if not cps:
            obs.append(("no block move only when there is nothing behind the removed element (or elements are zero-sized)", OR("(= n2 (bvsub %s %s))" % (ln, bvconst(1)), "(= %s %s)" % (es, bvconst(0)))))
        if len(cps) == 1:
            dst = "(bvadd %s (bvmul %s n2))" % (base, es)
            obs.append(_copy_ob(ex, cps[0], "(bvadd %s %s)" % (dst, es), dst, "(bvmul %s (bvsub (bvsub %s %s) n2))" % (es, ln, bvconst(1)),
                                "remove(index) shifts exactly the len - 1 - index elements behind the removed one down by one element"))
            obs.append(("the block move may overlap (ptr::copy / copy_bytes, not copy_nonoverlapping)", "false" if cps[0][4] else "true"))
        fin = ex.as_bv(ex.read_cell(p, "O:vecraw", (S.POS["vec_len"],), "usize"))[1]
        obs.append(("len ends as len - 1", "(= %s (bvsub %s %s))" % (fin, ln, bvconst(1))))
        return obs

    def on_panic(ex, p):
        return [("never panics for index < len", "false")]
    return Spec("Remove::new+consume", "src/ops/remove.rs", "consume", ["C01", "C05"], assume, on_return, on_panic, "which bytes remove(index) moves, all (len, index) values (typed and erased branch)",
                prelude=("src/ops/remove.rs", "new"))


def spec_swap_remove_consume():
    def assume(ex, p):
        base, es, ln = _vec_syms(ex, p, "O:vecraw")
        p.decls.setdefault("n2", "(_ BitVec 64)")
        return [("caller contract (index_check): index < len; bounds: element size <= 2^20, len <= 2^40", AND("(bvult n2 %s)" % ln, _mv_bounds(es, ln)))]

    def on_return(ex, p):
        base, es, ln = _vec_syms(ex, p, "O:vecraw")
        cps = events(p, "copy")
        last = "(bvsub %s %s)" % (ln, bvconst(1))
        lastp = "(bvadd %s (bvmul %s %s))" % (base, es, last)
        slot = "(bvadd %s (bvmul %s n2))" % (base, es)
        obs = [("at most one copy", "true" if len(cps) <= 1 else "false")]
        if len(cps) == 1:
            obs.append(_copy_ob(ex, cps[0], lastp, slot, es, "swap_remove(index) overwrites slot index with exactly the last element (one element size)"))
            obs.append(("a copy happens only when the removed element is not the last one", "(not (= n2 %s))" % last))
        else:
            obs.append(("no copy only when the removed element is the last one (or elements are zero-sized)", OR("(= n2 %s)" % last, "(= %s %s)" % (es, bvconst(0)))))
        fin = ex.as_bv(ex.read_cell(p, "O:vecraw", (S.POS["vec_len"],), "usize"))[1]
        obs.append(("len ends as len - 1", "(= %s %s)" % (fin, last)))
        return obs

    def on_panic(ex, p):
        return [("never panics for index < len", "false")]
    return Spec("SwapRemove::new+consume", "src/ops/swap_remove.rs", "consume", ["C01", "C05"], assume, on_return, on_panic, "which bytes swap_remove(index) moves, all (len, index) values",
                prelude=("src/ops/swap_remove.rs", "new"))


def spec_move_elements_at():
    def assume(ex, p):
        base, es, ln = _vec_syms(ex, p, "O:vecraw")
        for n in ("a2", "a3", "a4"):
            p.decls.setdefault(n, "(_ BitVec 64)")
        return [("bounds: element size <= 2^20, indices and count <= 2^40", _mv_bounds(es, "a2", "a3", "a4"))]

    def on_return(ex, p):
        base, es, ln = _vec_syms(ex, p, "O:vecraw")
        cps = events(p, "copy")
        obs = [("at most one block move", "true" if len(cps) <= 1 else "false")]
        if not cps:
            obs.append(("no block move only when nothing has to move", OR("(= a4 %s)" % bvconst(0), "(= a2 a3)", "(= %s %s)" % (es, bvconst(0)))))
        if len(cps) == 1:
            obs.append(_copy_ob(ex, cps[0], "(bvadd %s (bvmul %s a2))" % (base, es), "(bvadd %s (bvmul %s a3))" % (base, es), "(bvmul %s a4)" % es,
                                "moves exactly `len` elements from src_index to dst_index"))
            obs.append(("the block move may overlap", "false" if cps[0][4] else "true"))
        return obs

    def on_panic(ex, p):
        return [("never panics within the bounds", "false")]
    return Spec("move_elements_at", "utils", "move_elements_at", ["C02", "C05"], assume, on_return, on_panic, "tail move of drain/splice")


def spec_insert_unchecked(push):
    def assume(ex, p):
        base, es, ln = _vec_syms(ex, p, "O:arg1")
        p.decls.setdefault("a2", "(_ BitVec 64)")
        return [("bounds: element size <= 2^20, len <= 2^40", _mv_bounds(es, ln))]

    def on_return(ex, p):
        base0, es, ln = _vec_syms(ex, p, "O:arg1")
        res, cps, mvs = events(p, "reserve_one"), events(p, "copy"), events(p, "move_into")
        obs = [("room for one more element is reserved exactly once, before anything is moved", "true" if len(res) == 1 and p.events and p.events[0] is res[0] else "false"),
               ("the value is moved in exactly once", "true" if len(mvs) == 1 else "false")]
        base = ex.as_bv(ex.read_cell(p, "O:arg1", (S.POS["vec_mem"], "$base"), "usize"))[1]   # the storage pointer *after* reserve_one
        idx = ln if push else "a2"
        slot = "(bvadd %s (bvmul %s %s))" % (base, es, idx)
        if not push:
            obs.append(("at most one block move", "true" if len(cps) <= 1 else "false"))
            if not cps:
                obs.append(("no block move only when inserting at the end (or elements are zero-sized)", OR("(= a2 %s)" % ln, "(= %s %s)" % (es, bvconst(0)))))
            if len(cps) == 1:
                obs.append(_copy_ob(ex, cps[0], slot, "(bvadd %s %s)" % (slot, es), "(bvmul %s (bvsub %s %s))" % (es, ln, idx),
                                    "insert shifts exactly the (len - index) elements from the insertion slot up by one element, using the storage pointer obtained after reserving"))
                obs.append(("the block move may overlap", "false" if cps[0][4] else "true"))
                if mvs:
                    obs.append(("the tail is shifted before the value is written", "true" if p.events.index(cps[0]) < p.events.index(mvs[0]) else "false"))
        else:
            obs.append(("push moves no existing element", "true" if not cps else "false"))
        if len(mvs) == 1:
            dst, sz = ex.as_bv(mvs[0][2][0])[1], ex.as_bv(mvs[0][2][1])[1]
            obs.append(("the value is written to slot `index` of the (possibly relocated) storage with the element size", AND("(= %s %s)" % (dst, slot), "(= %s %s)" % (sz, es))))
            if not push:
                snap = mvs[0][3]
                obs.append(("while the value is moved in (user code may run) len is lowered to index: the shifted tail is hidden", "(= %s %s)" % (ex.as_bv(snap)[1], idx) if snap is not None else "false"))
        fin = ex.as_bv(ex.read_cell(p, "O:arg1", (S.POS["vec_len"],), "usize"))[1]
        obs.append(("len ends as len + 1", "(= %s (bvadd %s %s))" % (fin, ln, bvconst(1))))
        if not push:
            obs.append(("returns only for index <= len", "(bvule a2 %s)" % ln))
        return obs

    def on_panic(ex, p):
        base0, es, ln = _vec_syms(ex, p, "O:arg1")
        if push:
            return [("never panics within the bounds (reserve_one is summarised as returning)", "false")]
        return [("panics only for index > len, before anything is changed", AND("(bvugt a2 %s)" % ln, "true" if not p.events else "false"))]
    name = "push_unchecked" if push else "insert_unchecked"
    return Spec("AnyVecRaw::" + name, "src/any_vec_raw.rs", name, ["C01", "C05"], assume, on_return, on_panic,
                "which bytes %s moves and where the value lands, relative to the storage pointer after reserve_one" % name, vec_root="O:arg1")


def spec_handle_new(kind):
    """Pop::new / Remove::new / SwapRemove::new / Drain::new: the length is lowered when the handle is created"""
    file_part = {"Pop": "src/ops/pop.rs", "Remove": "src/ops/remove.rs", "SwapRemove": "src/ops/swap_remove.rs", "Drain": "src/ops/drain.rs"}[kind]

    def assume(ex, p):
        ln = sym(ex, p, "O:vecraw", (S.POS["vec_len"],))
        if kind == "Pop":
            return [("non-empty vector", "(bvugt %s %s)" % (ln, bvconst(0)))]
        if kind == "Drain":
            return [("start <= end <= len", AND("(bvule %s %s)" % ("a2", "a3"), "(bvule %s %s)" % ("a3", ln)))]
        return [("index < len", "(bvult %s %s)" % ("a2", ln))]

    def on_return(ex, p):
        ln = sym(ex, p, "O:vecraw", (S.POS["vec_len"],))
        fin = ex.read_cell(p, "O:vecraw", (S.POS["vec_len"],), "usize")[1]
        if kind == "Pop":
            return [("len is lowered by one at creation", "(= %s (bvsub %s %s))" % (fin, ln, bvconst(1)))]
        for n in ("a2", "a3"):
            p.decls.setdefault(n, "(_ BitVec 64)")
        want = "a2"
        return [("len is lowered to the %s at creation" % ("range start" if kind == "Drain" else "index"), "(= %s %s)" % (fin, want))]

    def on_panic(ex, p):
        return [("never panics for valid arguments", "false")]
    return Spec(kind + "::new", file_part, "new", ["C07"], assume, on_return, on_panic, "length lowering at handle creation (what makes mem::forget a pure leak), all 64-bit values")


def spec_get(method):
    def on_return(ex, p):
        ln = sym(ex, p, "O:arg1", ("$len",))
        idx = p.cells[("L:_2", ())][1]
        d = ex.read_cell(p, "L:_0", ("discr",), "isize")[1]
        calls = [e for e in p.events if e[0] == "get_unchecked"]
        obs = [("%s(i) is Some exactly for i < len" % method, "(= (= %s %s) (bvult %s %s))" % (d, bvconst(1), idx, ln))]
        if calls:
            obs.append(("the element is fetched at exactly the requested index, only when in range", AND("(bvult %s %s)" % (idx, ln), "(= %s %s)" % (ex.as_bv(calls[0][2][1])[1], idx))))
        return obs

    def on_panic(ex, p):
        return [("never panics", "false")]
    return Spec("AnyVec::" + method, "src/any_vec.rs", method, ["C01", "C13"], None, on_return, on_panic, "bounds test of the Option-returning accessors")


def all_specs():
    return [spec_into_range(), spec_reserve("reserve", "expand"), spec_reserve("reserve_exact", "expand_exact"), spec_shrink("shrink_to"), spec_shrink("shrink_to_fit"),
            spec_index_check(), spec_get("get"), spec_get("get_mut"), spec_drain_drop(),
            spec_handle_new("Pop"), spec_handle_new("Remove"), spec_handle_new("SwapRemove"), spec_handle_new("Drain"), spec_heap_resize(), spec_heap_expand(), spec_stack_build(), spec_stackn_build(), spec_iter_len("len"), spec_iter_len("size_hint"), spec_iter_step("next"), spec_iter_step("next_back"),
            spec_bytes("as_bytes"), spec_bytes("as_bytes_mut"), spec_bytes("spare_bytes_mut"), spec_heap_from_raw_parts(),
            spec_remove_consume(), spec_swap_remove_consume(), spec_move_elements_at(), spec_insert_unchecked(False), spec_insert_unchecked(True)]


# the kernels below read handle / chunk fields by position: the field names in declaration order, as they appear in a
# struct literal somewhere in the MIR dump. If the representation changes, the obligations no longer say what they mean:
# the kernel is then reported inconclusive (re-anchor the spec) instead of producing verdicts about the wrong fields.
LAYOUT_SRC = {
    # role prefix: (struct literal marker, {role: field name})
    "vec": ("AnyVecRaw::<", {"vec_mem": "mem", "vec_len": "len"}),
    "heap": ("HeapMem {", {"heap_ptr": "mem", "heap_size": "size", "heap_layout": "element_layout"}),
    "iter": ("iter::Iter::<", {"iter_index": "index", "iter_end": "end"}),
    "drain": ("drain::Drain::<", {"drain_iter": "iter", "drain_start": "start", "drain_end": "end", "drain_olen": "original_len"}),
}
NEEDS = {"Drain::drop": ("drain", "iter"), "Iter::len": ("iter",), "Iter::size_hint": ("iter",), "Iter::next": ("iter",), "Iter::next_back": ("iter",),
         "HeapMem::resize": ("heap",), "HeapMem::expand": ("heap",), "HeapMem::from_raw_parts": ("heap",),
         "AnyVecRaw::reserve": ("vec",), "AnyVecRaw::reserve_exact": ("vec",), "AnyVecRaw::shrink_to": ("vec",), "AnyVecRaw::shrink_to_fit": ("vec",), "AnyVecRaw::index_check": ("vec",),
         "AnyVecRaw::insert_unchecked": ("vec",), "AnyVecRaw::push_unchecked": ("vec",), "Remove::new+consume": ("vec",), "SwapRemove::new+consume": ("vec",),
         "Pop::new": ("vec",), "Remove::new": ("vec",), "SwapRemove::new": ("vec",), "Drain::new": ("vec",)}
LAYOUT_PROBLEM = {}


def struct_fields(text, marker):
    for line in text.splitlines():
        k = line.find("= " + marker)
        if k < 0 or not line.rstrip().endswith("};") or " { " not in line[k:]:
            continue
        body = line[line.index(" { ", k) + 3:line.rindex("}")]
        return [f.split(":", 1)[0].strip() for f in S.split_top(body)]
    return None


def heap_roles_by_type(text):
    """HeapMem's three fields have three different types: the literal in from_raw_parts(handle: NonNull<u8>, layout: Layout,
    size: usize) tells which field takes which argument even after a rename"""
    m = re.search(r"fn heap::<impl[^\n]*>::from_raw_parts\(_1: ([^,]+), _2: ([^,]+), _3: ([^)]+)\) -> HeapMem \{(.*?)\n\}", text, flags=re.S)
    if not m:
        return None
    argrole = {}
    for i, t in enumerate(m.group(1, 2, 3)):
        t = t.strip()
        argrole["_%d" % (i + 1)] = "heap_ptr" if "NonNull" in t or t.startswith("*") else "heap_layout" if "Layout" in t else "heap_size" if t == "usize" else None
    lit = re.search(r"= HeapMem \{ (.*) \};", m.group(4))
    if not lit:
        return None
    roles = {}
    for pos, fa in enumerate(S.split_top(lit.group(1))):
        v = fa.split(":", 1)[1].strip()
        mm = re.fullmatch(r"(?:copy|move) (_\d)", v)
        if mm and argrole.get(mm.group(1)):
            roles[argrole[mm.group(1)]] = pos
    return roles if len(roles) == 3 else None


def set_layout(text):
    """fills symex.POS from the struct literals of this dump; records per role group what could not be resolved"""
    LAYOUT_PROBLEM.clear()
    for grp, (marker, roles) in LAYOUT_SRC.items():
        got = struct_fields(text, marker)
        if got is None:
            LAYOUT_PROBLEM[grp] = "no struct literal `%s ...` in the MIR dump: the field layout the specification refers to cannot be confirmed" % marker
            continue
        missing = [n for n in roles.values() if n not in got]
        if missing and grp == "heap":
            byt = heap_roles_by_type(text)
            if byt:
                S.POS.update(byt)
                continue
        if missing:
            LAYOUT_PROBLEM[grp] = "private field(s) %s not found (fields now: %s): the specification is anchored to these names" % (missing, got)
            continue
        for role, name in roles.items():
            S.POS[role] = got.index(name)


def repr_problem(spec, text):
    for grp in NEEDS.get(spec.key, ()):
        if grp in LAYOUT_PROBLEM:
            return LAYOUT_PROBLEM[grp]
    return None


# ------------------------------------------------------------------ running
def run_spec(spec, fns, mode, solver, cross=None):
    fn = M.find(fns, spec.file_part, spec.method, spec.nth)
    rep = {"kernel": spec.key, "mode": mode, "obligations": 0, "discharged": 0, "violations": [], "inconclusive": [], "paths": 0, "feasible_paths": 0, "samples": []}
    if fn is None:
        rep["inconclusive"].append("function not found in MIR dump")
        return rep
    if fn.has_loop():
        rep["inconclusive"].append("function has a loop: outside this engine")
        return rep
    ex = S.Exec(fn)
    ex.vec_root = spec.vec_root
    ex.fns = fns
    S.ELEM_PTRS.clear()
    try:
        if spec.prelude is None:
            paths = ex.run()
        else:
            pfn = M.find(fns, spec.prelude[0], spec.prelude[1], 0)
            if pfn is None or pfn.has_loop():
                rep["inconclusive"].append("constructor %s::%s not found (or has a loop)" % spec.prelude)
                return rep
            pex = S.Exec(pfn, arg_prefix="n")
            pex.vec_root = spec.vec_root
            pex.fns = fns
            paths = []
            for q in pex.run():
                if q.outcome is None or q.outcome[0] != "return":
                    if q.outcome and q.outcome[0] == "unsupported":
                        raise S.Unsupported("constructor: " + q.outcome[1])
                    continue   # the constructor's own panics are not this kernel's subject
                init = S.Path()
                init.decls = q.decls
                init.pc = list(q.pc)
                init.nobj = q.nobj
                for (r, pa), v in q.cells.items():
                    if r == "L:_0":
                        init.cells[("O:arg1", pa)] = v
                    elif not r.startswith("L:"):
                        init.cells[(r, pa)] = v
                for (r, pa), tgt in q.links.items():
                    if r == "L:_0":
                        init.links[("O:arg1", pa)] = tgt
                    elif not r.startswith("L:") and not tgt[0].startswith("L:"):
                        init.links[(r, pa)] = tgt
                ex2 = S.Exec(fn)
                ex2.vec_root = spec.vec_root
                ex2.fns = fns
                ex2.counter = pex.counter + 1000
                paths += ex2.run(init=init)
                ex.decls = q.decls
    except S.Unsupported as e:
        rep["inconclusive"].append("symbolic execution: %s" % e)
        return rep
    rep["paths"] = len(paths)
    from concurrent.futures import ThreadPoolExecutor
    pool = ThreadPoolExecutor(max_workers=int(os.environ.get("VERIF_SMT_JOBS", "12")))
    jobs = []   # (future, p, kind, base, label, term)

    def one(p, base, label, term):
        r, out = solver.check(p.decls, base + [NOT(term)], want_model=True)
        r2 = None
        if r == "unsat" and cross is not None:
            r2, _ = cross.check(p.decls, base + [NOT(term)])
        return r, out, r2

    feas = [(p, pool.submit(solver.check, p.decls, [t for _, t in (spec.assume(ex, p) if spec.assume else [])] + list(p.pc))) for p in paths]
    for p, fut in feas:
        kind = p.outcome[0] if p.outcome else "none"
        pre = [t for _, t in (spec.assume(ex, p) if spec.assume else [])]
        base = pre + list(p.pc)
        # feasibility (vacuity guard): infeasible paths carry no obligation
        r, _ = fut.result()
        if r == "unsat":
            continue
        if r != "sat":
            rep["inconclusive"].append("path feasibility: %s" % r)
            continue
        rep["feasible_paths"] += 1
        if kind == "unsupported":
            rep["inconclusive"].append("feasible path ends in unsupported construct: %s" % p.outcome[1])
            continue
        if kind == "unreachable":
            rep["violations"].append({"kernel": spec.key, "mode": mode, "obligation": "`unreachable` is reachable", "model": {}})
            continue
        try:
            obs = spec.on_return(ex, p) if kind == "return" else spec.on_panic(ex, p)
        except (KeyError, S.Unsupported) as e:
            rep["inconclusive"].append("obligation construction failed on a %s path: %r" % (kind, e))
            continue
        for label, term in obs:
            rep["obligations"] += 1
            jobs.append((pool.submit(one, p, base, label, term), p, kind, base, label, term))
    for fut, p, kind, base, label, term in jobs:
        r, out, r2 = fut.result()
        if r == "unsat":
            if cross is not None and r2 == "unknown":
                # the second solver gave up (time limit): the obligation stands on the first solver's answer alone
                rep["not_cross_checked"] = rep.get("not_cross_checked", 0) + 1
            elif cross is not None and r2 != "unsat":
                rep["inconclusive"].append("solvers disagree on `%s` (%s vs %s)" % (label, r, r2))
                continue
            rep["discharged"] += 1
            if len(rep["samples"]) < 2:
                rep["samples"].append({"kernel": spec.key, "mode": mode, "path": kind, "obligation": label, "query": "pc(%d conjuncts) AND NOT (%s)" % (len(base), term[:200]), "answer": "unsat"})
        elif r == "sat":
            inputs = sorted(n for n in p.decls if n.startswith("a") or n.startswith("in_") or n.endswith("_kind") or n.endswith("_val") or n.startswith("cg_"))
            rep["violations"].append({"kernel": spec.key, "mode": mode, "path": kind, "outcome": str(p.outcome[1])[:80], "obligation": label, "model": model_values(out, inputs)})
        else:
            rep["inconclusive"].append("solver answered %s for `%s`" % (r, label))
    pool.shutdown()
    if rep["feasible_paths"] == 0:
        rep["inconclusive"].append("no feasible path (vacuous)")
    return rep


def load_known(verif):
    p = Path(verif) / "known_findings.json"
    if not p.exists():
        return []
    return json.loads(p.read_text()).get("findings", [])


def part(prop):
    """callable(repo, workdir, tier, seed) -> report dict for run.py"""
    def run(repo, work, tier, seed):
        t0 = time.time()
        verif = HERE.parent
        solver = Solver("z3", ("-in",), 60)
        cross = Solver("cvc5", ("--lang", "smt2"), 60) if tier == "thorough" else None
        specs = [s for s in all_specs() if prop in s.props]
        rep = {"engine": "mirsmt", "lines": [], "violations": 0, "inconclusive": 0,
               "coverage": {"obligations": 0, "discharged": 0, "functions": [], "samples": [], "kernels": [], "solver_s": 0.0}}
        known = [k for k in load_known(verif) if k.get("engine") == "mirsmt" and k["property"] == prop]
        for mode in ("on", "off"):
            try:
                text = dump_mir(repo, Path(work) / "mirsmt", mode)
            except RuntimeError as e:
                rep["lines"].append("INCONCLUSIVE property=%s MIR dump (%s) failed: %s" % (prop, mode, str(e)[:200]))
                rep["inconclusive"] += 1
                continue
            fns = M.parse(text)
            set_layout(text)
            for spec in specs:
                rp = repr_problem(spec, text)
                if rp:
                    rep["lines"].append("INCONCLUSIVE property=%s mirsmt %s (overflow-checks=%s): %s" % (prop, spec.key, mode, rp))
                    rep["inconclusive"] += 1
                    continue
                r = run_spec(spec, fns, mode, solver, cross)
                rep["coverage"]["obligations"] += r["obligations"]
                rep["coverage"]["discharged"] += r["discharged"]
                rep["coverage"]["kernels"].append({k: r.get(k, 0) for k in ("kernel", "mode", "paths", "feasible_paths", "obligations", "discharged", "not_cross_checked")})
                rep["coverage"]["samples"] += r["samples"][:1]
                if r["obligations"]:
                    rep["coverage"]["functions"].append("any_vec::%s [MIR, overflow-checks=%s]" % (spec.key, mode))
                for inc in r["inconclusive"]:
                    rep["lines"].append("INCONCLUSIVE property=%s mirsmt %s (overflow-checks=%s): %s" % (prop, spec.key, mode, inc))
                    rep["inconclusive"] += 1
                for v in r["violations"]:
                    k = None
                    for kk in known:
                        if kk.get("status") == "known" and re.search(kk["match"].get("kernel", ""), v["kernel"]) and re.search(kk["match"].get("obligation", ""), v["obligation"]) and re.search(kk["match"].get("mode", ""), v["mode"]):
                            k = kk
                    if k:
                        rep["lines"].append("KNOWN-FINDING: property=%s %s [mirsmt %s overflow-checks=%s: %s]" % (prop, k["what"], v["kernel"], v["mode"], v["obligation"]))
                        continue
                    (verif / "replays").mkdir(exist_ok=True)
                    rp = verif / "replays" / ("%s-mirsmt-%s-%s-%s.json" % (prop, S.sanitize(v["kernel"]), mode, abs(hash(v["obligation"])) % 100000))
                    rp.write_text(json.dumps(v, indent=1))
                    rep["violations"] += 1
                    rep["lines"].append("VIOLATION property=%s replay=%s" % (prop, rp))
                    rep["lines"].append("  mirsmt kernel=%s overflow-checks=%s obligation violated: %s" % (v["kernel"], mode, v["obligation"]))
                    rep["lines"].append("  counterexample inputs: %s" % json.dumps(v["model"]))
        # translator validation (concrete differential run of encoding vs real code, both profiles)
        validated = {"into_range", "AnyVecRaw::reserve", "AnyVecRaw::reserve_exact", "AnyVecRaw::shrink_to", "Stack::build", "StackN::build"}
        if any(sp.key in validated for sp in specs) and not rep["violations"]:
            try:
                from . import validate as VAL
                vr = VAL.run(repo, Path(work) / "mirsmt", seed)
                rep["coverage"]["translator_validation"] = {"inputs_compared_with_real_code": vr["compared"], "disagreements": vr["disagreements"][:10], "profiles": ["dev", "release"]}
                if vr["disagreements"]:
                    rep["inconclusive"] += 1
                    rep["lines"].append("INCONCLUSIVE property=%s mirsmt translator validation: encoding and real code disagree on %d of %d concrete inputs (e.g. %s)" % (prop, len(vr["disagreements"]), vr["compared"], vr["disagreements"][0]))
            except Exception as e:  # noqa
                rep["inconclusive"] += 1
                rep["lines"].append("INCONCLUSIVE property=%s mirsmt translator validation failed to run: %s" % (prop, str(e)[:300]))
        rep["coverage"]["solver_s"] = round(solver.time + (cross.time if cross else 0), 2)
        rep["coverage"]["queries"] = solver.queries + (cross.queries if cross else 0)
        rep["coverage"]["wall_s"] = round(time.time() - t0, 1)
        shutil.rmtree(Path(work) / "mirsmt", ignore_errors=True)
        return rep
    return run


def c19_side_check(repo, work, tier, seed):
    """NOT solver-decided: syntactic scan of the --no-default-features MIR (no heap module, no path into the alloc
    crate) with the default-features MIR as the positive control"""
    rep = {"engine": "mir-scan(no-alloc)", "lines": [], "violations": 0, "inconclusive": 0, "coverage": {"obligations": 0, "discharged": 0, "functions": [], "samples": [], "solver_s": 0.0}}
    try:
        na = dump_mir(repo, Path(work) / "mirscan", "on", features_default=False)
        df = dump_mir(repo, Path(work) / "mirscan", "on", features_default=True)
    except RuntimeError as e:
        rep["inconclusive"] += 1
        rep["lines"].append("INCONCLUSIVE property=C19 no-default-features build/MIR dump failed: %s" % str(e)[:300])
        return rep
    heap_fns = [l for l in na.splitlines() if l.startswith("fn ") and ("heap::" in l or "HeapMem" in l)]
    alloc_refs = [l.strip() for l in na.splitlines() if re.search(r"\balloc::(alloc|vec|boxed|string|collections)\b", l)]
    control = any(l.startswith("fn heap::") for l in df.splitlines())
    rep["coverage"]["obligations"] = 3
    rep["coverage"]["discharged"] = (0 if heap_fns else 1) + (0 if alloc_refs else 1) + (1 if control else 0)
    rep["coverage"]["samples"] = [{"side_check": "functions in no-default-features MIR", "count": sum(1 for l in na.splitlines() if l.startswith("fn ")), "heap_functions": len(heap_fns), "alloc_crate_references": len(alloc_refs), "control_default_build_has_heap_module": control}]
    if not control:
        rep["inconclusive"] += 1
        rep["lines"].append("INCONCLUSIVE property=C19 control failed: default-features MIR shows no heap module")
    if heap_fns or alloc_refs:
        (HERE.parent / "replays").mkdir(exist_ok=True)
        rp = HERE.parent / "replays" / "C19-mirscan.json"
        rp.write_text(json.dumps({"heap_functions": heap_fns[:10], "alloc_references": alloc_refs[:10]}, indent=1))
        rep["violations"] += 1
        rep["lines"].append("VIOLATION property=C19 replay=%s" % rp)
        rep["lines"].append("  the no-default-features build still contains heap backend code / references to the alloc crate: %s" % (heap_fns[:2] + alloc_refs[:2]))
    shutil.rmtree(Path(work) / "mirscan", ignore_errors=True)
    return rep


def parts_for(prop):
    if prop == "C19":
        return [c19_side_check]
    if any(prop in s.props for s in all_specs()):
        return [part(prop)]
    return []


if __name__ == "__main__":
    import sys
    prop = sys.argv[1] if len(sys.argv) > 1 else "C10"
    r = part(prop)("/repo", "/verif/.work/mirsmt_cli", "quick", 0)
    print("\n".join(r["lines"]))
    print(json.dumps(r["coverage"]["kernels"], indent=1))
    print("obligations", r["coverage"]["obligations"], "discharged", r["coverage"]["discharged"], "violations", r["violations"], "inconclusive", r["inconclusive"], "solver_s", r["coverage"]["solver_s"])
