"""Symbolic execution of loop-free MIR functions into SMT-LIB2 terms over 64-bit bit-vectors.

Values: ('bv', term, width) | ('bool', term) | ('ref', root, path) | ('unit',) | ('agg', root, path)
Storage: cells keyed by (root, path); roots are 'L:_3' (locals) or 'O:name' (pointees / fresh objects).
Unknown cells are created lazily as fresh symbols whose name is derived from (root, path): that name
*is* the initial value of that input, which is what obligations refer to.
Calls are resolved through the summary table below; an unknown callee makes the path 'unsupported'
(the function is then reported inconclusive - never silently skipped).
"""
import re
from .mir import split_top

INT_W = {"usize": 64, "isize": 64, "u64": 64, "i64": 64, "u32": 32, "i32": 32, "u16": 16, "i16": 16, "u8": 8, "i8": 8, "u128": 128, "i128": 128}


def bvconst(v, w=64):
    return "(_ bv%d %d)" % (v % (1 << w), w)


def is_ptr_type(t):
    t = t.strip()
    return t.startswith("&") or t.startswith("*const") or t.startswith("*mut") or "NonNull<" in t or t.startswith("fn(") or t.startswith("unsafe fn")


def is_scalar_type(t):
    t = t.strip()
    return t in INT_W or t == "bool" or is_ptr_type(t) or t == "char"


def sanitize(s):
    return re.sub(r"[^A-Za-z0-9_]", "_", s)


# ------------------------------------------------------------------ places
def parse_place(s):
    s = s.strip()
    if re.fullmatch(r"_\d+", s):
        return ("local", s)
    if s.startswith("(") and s.endswith(")"):
        inner = s[1:-1].strip()
        if inner.startswith("*"):
            return ("deref", parse_place(inner[1:]))
        # downcast: (place as Variant)
        depth = 0
        for i in range(len(inner)):
            c = inner[i]
            if c in "([{<":
                depth += 1
            elif c in ")]}>":
                depth -= 1
            elif depth == 0 and inner.startswith(" as ", i):
                left, right = inner[:i], inner[i + 4:]
                if re.fullmatch(r"[A-Za-z_][A-Za-z0-9_]*", right.strip()):
                    return ("downcast", parse_place(left), right.strip())
        # field: place.F: TYPE
        depth = 0
        for i in range(len(inner)):
            c = inner[i]
            if c in "([{":
                depth += 1
            elif c in ")]}":
                depth -= 1
            elif depth == 0 and inner.startswith(": ", i):
                left, typ = inner[:i], inner[i + 2:]
                k = left.rfind(".")
                return ("field", parse_place(left[:k]), int(left[k + 1:]), typ.strip())
    if s.startswith("*"):
        return ("deref", parse_place(s[1:]))
    raise ValueError("unsupported place: " + s)


class Unsupported(Exception):
    pass


def strip_generics(t):
    out, depth = "", 0
    for ch in t:
        if ch == "<":
            depth += 1
        elif ch == ">":
            depth -= 1
        elif depth == 0:
            out += ch
    return out


class Path:
    def __init__(self):
        self.cells = {}
        self.links = {}      # (root, prefix) -> (src_root, src_prefix)
        self.pc = []
        self.events = []
        self.decls = {}      # symbol -> sort
        self.nobj = 0
        self.outcome = None
        self.notes = []

    def clone(self):
        p = Path()
        p.cells = dict(self.cells)
        p.links = dict(self.links)
        p.pc = list(self.pc)
        p.events = list(self.events)
        p.decls = self.decls  # shared on purpose: names are global to the function run
        p.nobj = self.nobj
        p.notes = list(self.notes)
        return p


class Exec:
    def __init__(self, fn, summaries=None, max_paths=4000, arg_prefix="a"):
        self.fn = fn
        self.arg_prefix = arg_prefix
        self.lroot = "L:"       # root prefix of this frame's locals (inlined callees get "L<k>:")
        self.fns = None         # all functions of the dump (for inlining crate-local helpers)
        self.depth = 0
        self.paths = []
        self.decls = {}
        self.counter = 0
        self.max_paths = max_paths
        self.summaries = summaries or SUMMARIES

    # -------------------------------------------------------------- symbols
    def fresh(self, p, name, sort):
        name = sanitize(name)
        if name in p.decls and p.decls[name] != sort:
            name = name + "_" + sanitize(sort)
        p.decls[name] = sort
        return name

    def fresh_val(self, p, name, typ):
        typ = typ.strip()
        if typ == "bool":
            return ("bool", self.fresh(p, name, "Bool"))
        w = INT_W.get(typ, 64)
        return ("bv", self.fresh(p, name, "(_ BitVec %d)" % w), w)

    def new_obj(self, p, hint):
        p.nobj += 1
        return "O:%s%d" % (sanitize(hint), p.nobj)

    # -------------------------------------------------------------- cells
    def read_cell(self, p, root, path, typ):
        key = (root, path)
        if key in p.cells:
            return p.cells[key]
        # through a lazy aggregate-copy link?
        for k in range(len(path), -1, -1):
            lk = (root, path[:k])
            if lk in p.links:
                sroot, sprefix = p.links[lk]
                v = self.read_cell(p, sroot, sprefix + path[k:], typ)
                p.cells[key] = v
                return v
        typ = typ.strip()
        name = "%s__%s" % (root.split(":", 1)[1], "_".join(str(x if not isinstance(x, tuple) else x[1]) for x in path))
        if typ in ("*mut u8", "*const u8"):
            v = self.fresh_val(p, "in_" + name, "usize")   # byte pointers are plain addresses
        elif is_ptr_type(typ) and (typ.startswith("&") or typ.startswith("*")):
            obj = self.new_obj(p, "p_" + name)
            v = ("ref", obj, ())
        else:
            v = self.fresh_val(p, "in_" + name, typ if (typ in INT_W or typ == "bool") else "usize")
        p.cells[key] = v
        return v

    def has_prefix(self, p, root, path):
        n = len(path)
        for (r, pa) in p.cells:
            if r == root and len(pa) > n and pa[:n] == path:
                return True
        return (root, path) in p.links

    def copy_agg(self, p, sroot, spath, droot, dpath):
        n = len(spath)
        # clear destination subtree
        for key in [k for k in p.cells if k[0] == droot and k[1][:len(dpath)] == dpath]:
            del p.cells[key]
        for key in [k for k in p.links if k[0] == droot and k[1][:len(dpath)] == dpath]:
            del p.links[key]
        for (r, pa), v in list(p.cells.items()):
            if r == sroot and pa[:n] == spath:
                p.cells[(droot, dpath + pa[n:])] = v
        for (r, pa), tgt in list(p.links.items()):
            if r == sroot and pa[:n] == spath and (r, pa) != (droot, dpath):
                p.links[(droot, dpath + pa[n:])] = tgt
        if (droot, dpath) not in p.links:
            p.links[(droot, dpath)] = (sroot, spath)

    def write(self, p, root, path, v):
        # overwriting a scalar cell or a whole aggregate
        for key in [k for k in p.cells if k[0] == root and k[1][:len(path)] == path]:
            del p.cells[key]
        for key in [k for k in p.links if k[0] == root and k[1][:len(path)] == path]:
            del p.links[key]
        if v[0] == "agg":
            self.copy_agg(p, v[1], v[2], root, path)
        else:
            p.cells[(root, path)] = v

    # -------------------------------------------------------------- places / operands
    def place(self, p, pl):
        """-> (root, path, type)"""
        k = pl[0]
        if k == "local":
            return self.lroot + pl[1], (), self.fn.locals.get(pl[1], "usize")
        if k == "field":
            r, pa, _ = self.place(p, pl[1])
            return r, pa + (pl[2],), pl[3]
        if k == "downcast":
            r, pa, t = self.place(p, pl[1])
            return r, pa + (("as", pl[2]),), t
        if k == "deref":
            r, pa, t = self.place(p, pl[1])
            v = self.read_cell(p, r, pa, t if is_ptr_type(t) else "&" + t)
            if v[0] != "ref":
                raise Unsupported("deref of non-reference value %r" % (v,))
            inner = re.sub(r"^(&mut |&|\*const |\*mut )", "", t.strip())
            return v[1], v[2], inner
        raise Unsupported("place kind " + k)

    def read_place(self, p, s):
        r, pa, t = self.place(p, parse_place(s))
        if (r, pa) in p.cells:
            return p.cells[(r, pa)]
        if self.has_prefix(p, r, pa) or not is_scalar_type(t):
            return ("agg", r, pa)
        return self.read_cell(p, r, pa, t)

    def const(self, s, want=None):
        s = s.strip()
        if s in ("true", "false"):
            return ("bool", s)
        m = re.fullmatch(r"(-?\d+)_(usize|isize|u8|u16|u32|u64|u128|i8|i16|i32|i64|i128)", s)
        if m:
            w = INT_W[m.group(2)]
            return ("bv", bvconst(int(m.group(1)), w), w)
        m = re.search(r"<impl (usize|u64|u32|u16|u8|isize)>::MAX$", s) or re.fullmatch(r"(usize|u64|u32|u16|u8)::MAX", s)
        if m:
            w = INT_W[m.group(1)]
            return ("bv", bvconst((1 << w) - 1, w), w)
        if s == "()":
            return ("unit",)
        if s.startswith('"') or s.startswith("b\""):
            return ("unit",)
        # function items, ZST constants, const generics
        m = re.fullmatch(r"([A-Z][A-Z0-9_]*)", s)
        if m:
            return ("bv", "cg_" + m.group(1), 64)
        return ("unit",)

    def operand(self, p, s):
        s = s.strip()
        if s.startswith("no_retag "):
            s = s[len("no_retag "):]
        if s.startswith("copy ") or s.startswith("move "):
            return self.read_place(p, s[5:])
        if s.startswith("const "):
            v = self.const(s[6:])
            if v[0] == "bv" and v[1].startswith("cg_"):
                p.decls[v[1]] = "(_ BitVec 64)"
            return v
        raise Unsupported("operand " + s)

    # -------------------------------------------------------------- rvalues
    def as_bv(self, v, w=64):
        if v[0] == "bv":
            return v
        if v[0] == "bool":
            return ("bv", "(ite %s %s %s)" % (v[1], bvconst(1, w), bvconst(0, w)), w)
        raise Unsupported("expected integer, got %r" % (v,))

    def binop(self, p, op, a, b, dest):
        if op in ("Eq", "Ne") and a[0] == "bool":
            t = "(= %s %s)" % (a[1], b[1])
            return ("bool", t if op == "Eq" else "(not %s)" % t)
        if op in ("Eq", "Ne") and a[0] == "bv" and b[0] == "bv" and a[1] in ELEM_PTRS and b[1] in ELEM_PTRS:
            (i1, es1), (i2, _) = ELEM_PTRS[a[1]], ELEM_PTRS[b[1]]
            same = "(or (= %s %s) (= %s %s))" % (i1, i2, es1, bvconst(0))
            return ("bool", same if op == "Eq" else "(not %s)" % same)
        if a[0] == "ref" or b[0] == "ref":
            raise Unsupported("pointer comparison/arithmetic in binop " + op)
        a, b = self.as_bv(a), self.as_bv(b, a[2] if a[0] == "bv" else 64)
        w = a[2]
        x, y = a[1], b[1]
        if op in ("Shl", "Shr", "ShlUnchecked", "ShrUnchecked"):
            # MIR shifts mask the amount to the width of the left operand (the dev profile asserts amount < width before)
            if b[2] < w:
                y = "((_ zero_extend %d) %s)" % (w - b[2], y)
            elif b[2] > w:
                y = "((_ extract %d 0) %s)" % (w - 1, y)
            y = "(bvand %s %s)" % (y, bvconst(w - 1, w))
            return ("bv", "(%s %s %s)" % ("bvshl" if op.startswith("Shl") else "bvlshr", x, y), w)
        if op in ("Add", "AddUnchecked"):
            return ("bv", "(bvadd %s %s)" % (x, y), w)
        if op in ("Sub", "SubUnchecked"):
            return ("bv", "(bvsub %s %s)" % (x, y), w)
        if op in ("Mul", "MulUnchecked"):
            return ("bv", "(bvmul %s %s)" % (x, y), w)
        if op in ("Div", "Rem"):
            # fresh quotient / remainder + division lemma (bit-blasted 64-bit bvudiv does not finish):
            #   y != 0  =>  x = q*y + r (no overflow, stated at 2w bits)  and  r < y
            self.counter += 1
            q = self.fresh(p, "divq_%d" % self.counter, "(_ BitVec %d)" % w)
            r = self.fresh(p, "divr_%d" % self.counter, "(_ BitVec %d)" % w)
            zxw = lambda t: "((_ zero_extend %d) %s)" % (w, t)
            p.pc.append("(=> (not (= %s %s)) (and (= %s (bvadd (bvmul %s %s) %s)) (bvult %s %s)))" % (y, bvconst(0, w), zxw(x), zxw(q), zxw(y), zxw(r), r, y))
            p.notes.append(("div", q, r, x, y))
            return ("bv", q if op == "Div" else r, w)
        if op == "BitAnd":
            return ("bv", "(bvand %s %s)" % (x, y), w)
        if op == "BitOr":
            return ("bv", "(bvor %s %s)" % (x, y), w)
        if op == "BitXor":
            return ("bv", "(bvxor %s %s)" % (x, y), w)
        cmp_ = {"Eq": "(= %s %s)", "Ne": "(not (= %s %s))", "Lt": "(bvult %s %s)", "Le": "(bvule %s %s)", "Gt": "(bvugt %s %s)", "Ge": "(bvuge %s %s)"}
        if op in cmp_:
            return ("bool", cmp_[op] % (x, y))
        if op in ("AddWithOverflow", "SubWithOverflow", "MulWithOverflow"):
            ext_x = "((_ zero_extend %d) %s)" % (w, x)
            ext_y = "((_ zero_extend %d) %s)" % (w, y)
            if op == "AddWithOverflow":
                res = "(bvadd %s %s)" % (x, y)
                ovf = "(bvult %s %s)" % (res, x)
            elif op == "SubWithOverflow":
                res = "(bvsub %s %s)" % (x, y)
                ovf = "(bvult %s %s)" % (x, y)
            else:
                res = "(bvmul %s %s)" % (x, y)
                ovf = "(not (= ((_ extract %d %d) (bvmul %s %s)) %s))" % (2 * w - 1, w, ext_x, ext_y, bvconst(0, w))
            r, pa, _ = dest
            self.write(p, r, pa + (0,), ("bv", res, w))
            self.write(p, r, pa + (1,), ("bool", ovf))
            return None
        raise Unsupported("binop " + op)

    def assign(self, p, lhs, rhs):
        dest = self.place(p, parse_place(lhs))
        r, pa, t = dest
        rhs = rhs.strip()
        if rhs.startswith("no_retag "):
            rhs = rhs[len("no_retag "):]
        m = re.fullmatch(r"([A-Za-z]+)\((.*)\)", rhs)
        if m and m.group(1) in ("Add", "Sub", "Mul", "Div", "Rem", "BitAnd", "BitOr", "BitXor", "Eq", "Ne", "Lt", "Le", "Gt", "Ge",
                                "AddWithOverflow", "SubWithOverflow", "MulWithOverflow", "AddUnchecked", "SubUnchecked", "MulUnchecked",
                                "Shl", "Shr", "ShlUnchecked", "ShrUnchecked"):
            a, b = split_top(m.group(2))
            v = self.binop(p, m.group(1), self.operand(p, a), self.operand(p, b), dest)
            if v is not None:
                self.write(p, r, pa, v)
            return
        if m and m.group(1) == "Not":
            v = self.operand(p, m.group(2))
            self.write(p, r, pa, ("bool", "(not %s)" % v[1]) if v[0] == "bool" else ("bv", "(bvnot %s)" % v[1], v[2]))
            return
        if m and m.group(1) == "discriminant":
            sr, sp, _ = self.place(p, parse_place(m.group(2)))
            self.write(p, r, pa, self.read_cell(p, sr, sp + ("discr",), "isize"))
            return
        if rhs.startswith("&raw const ") or rhs.startswith("&raw mut "):
            sr, sp, _ = self.place(p, parse_place(rhs.split(" ", 2)[2]))
            self.write(p, r, pa, ("ref", sr, sp))
            return
        if rhs.startswith("&mut ") or rhs.startswith("&"):
            inner = rhs[5:] if rhs.startswith("&mut ") else rhs[1:]
            sr, sp, _ = self.place(p, parse_place(inner))
            self.write(p, r, pa, ("ref", sr, sp))
            return
        m2 = re.fullmatch(r"((?:copy|move|const) .*?) as (.*?) \((\w+)(?:\(.*\))?\)", rhs)
        if m2:
            v = self.operand(p, m2.group(1))
            to = m2.group(2).strip()
            if v[0] == "bv" and to in INT_W and INT_W[to] != v[2]:
                w = INT_W[to]
                v = ("bv", "((_ extract %d 0) %s)" % (w - 1, v[1]) if w < v[2] else "((_ zero_extend %d) %s)" % (w - v[2], v[1]), w)
            elif v[0] == "bool" and to in INT_W:
                v = self.as_bv(v, INT_W[to])
            self.write(p, r, pa, v)
            return
        if rhs.startswith("copy ") or rhs.startswith("move ") or rhs.startswith("const "):
            self.write(p, r, pa, self.operand(p, rhs))
            return
        # aggregates
        m3 = re.fullmatch(r"\((.*)\)", rhs)
        if m3 is not None and not rhs.startswith("(*") and not rhs.startswith("(_"):
            for i, a in enumerate(split_top(m3.group(1))):
                self.write(p, r, pa + (i,), self.operand(p, a))
            return
        m4 = re.fullmatch(r"(.+?) \{ (.*) \}", rhs)
        if m4:
            for i, fa in enumerate(split_top(m4.group(2))):
                name, val = fa.split(": ", 1)
                v = self.operand(p, val)
                self.write(p, r, pa + (i,), v)
                self.write(p, r, pa + ("n:" + name.strip(),), v)
            return
        m5 = re.fullmatch(r"(?:core::option::)?Option::<.*>::(Some|None)(?:\((.*)\))?", rhs)
        if m5:
            if m5.group(1) == "None":
                self.write(p, r, pa + ("discr",), ("bv", bvconst(0), 64))
            else:
                self.write(p, r, pa + ("discr",), ("bv", bvconst(1), 64))
                self.write(p, r, pa + (("as", "Some"), 0), self.operand(p, m5.group(2)))
            return
        raise Unsupported("rvalue: " + rhs)

    # -------------------------------------------------------------- driver
    def run(self, init=None):
        """init: a Path whose cells / path condition / declarations are the starting state (used to run a second
        function on the result of a first one)"""
        p0 = Path()
        if init is not None:
            p0 = init
            self.decls = p0.decls
        p0.decls = self.decls
        for i, (a, t) in enumerate(self.fn.args):
            if (self.lroot + a, ()) in p0.cells or (self.lroot + a, ()) in p0.links:
                continue   # bound by the caller (inlined frame)
            t = t.strip()
            name = "%s%d" % (self.arg_prefix, i + 1)
            if t.startswith("&") or t.startswith("*"):
                p0.cells[(self.lroot + a, ())] = ("ref", "O:arg%d" % (i + 1), ())
            elif is_scalar_type(t):
                p0.cells[(self.lroot + a, ())] = self.fresh_val(p0, name, t if t in INT_W or t == "bool" else "usize")
            else:
                p0.links[(self.lroot + a, ())] = ("O:arg%d" % (i + 1), ())
        work = [(p0, "bb0")]
        done = []
        while work:
            if len(done) + len(work) > self.max_paths:
                raise Unsupported("path explosion")
            p, bb = work.pop()
            try:
                nxt = self.block(p, bb)
            except Unsupported as e:
                p.outcome = ("unsupported", str(e))
                done.append(p)
                continue
            for (q, nb) in nxt:
                if nb is None:
                    done.append(q)
                else:
                    work.append((q, nb))
        self.paths = done
        return done

    def block(self, p, bb):
        stmts, term = self.fn.blocks[bb]
        for s in stmts:
            if s.startswith("StorageLive") or s.startswith("StorageDead") or s.startswith("nop") or s.startswith("FakeRead") or s.startswith("PlaceMention") \
                    or s.startswith("Retag") or s.startswith("AscribeUserType") or s.startswith("Coverage") or s.startswith("ConstEvalCounter") or s.startswith("//"):
                continue
            if s.startswith("assume("):
                v = self.operand(p, s[len("assume("):-2])
                p.pc.append(v[1])
                continue
            m = re.match(r"(.+?) = (.*);$", s)
            if not m:
                raise Unsupported("statement: " + s)
            self.assign(p, m.group(1), m.group(2))
        return self.terminator(p, term)

    def terminator(self, p, t):
        t = t.strip()
        if t == "return;":
            p.outcome = ("return", None)
            return [(p, None)]
        if t == "unreachable;":
            p.outcome = ("unreachable", None)
            return [(p, None)]
        if t.startswith("resume") or t.startswith("abort") or t.startswith("terminate"):
            p.outcome = ("panic", "unwind")
            return [(p, None)]
        m = re.fullmatch(r"goto -> (bb\d+);", t)
        if m:
            return [(p, m.group(1))]
        m = re.fullmatch(r"drop\((.*)\) -> \[return: (bb\d+), .*\];", t)
        if m:
            return [(p, m.group(2))]
        m = re.fullmatch(r"switchInt\((.*)\) -> \[(.*)\];", t)
        if m:
            v = self.operand(p, m.group(1))
            out = []
            others = []
            for arm in split_top(m.group(2)):
                k, tgt = arm.split(": ")
                if k == "otherwise":
                    q = p.clone()
                    for c in others:
                        q.pc.append("(not %s)" % c)
                    out.append((q, tgt))
                else:
                    kv = int(k)
                    if v[0] == "bool":
                        c = v[1] if kv else "(not %s)" % v[1]
                    else:
                        c = "(= %s %s)" % (v[1], bvconst(kv, v[2]))
                    others.append(c)
                    q = p.clone()
                    q.pc.append(c)
                    out.append((q, tgt))
            return out
        m = re.fullmatch(r"assert\((!?)(.*?), (\".*?\")(?:, .*)?\) -> \[success: (bb\d+), .*\];", t)
        if m:
            v = self.operand(p, m.group(2))
            c = v[1]
            if m.group(1) == "!":
                c = "(not %s)" % c
            ok = p.clone()
            ok.pc.append(c)
            bad = p.clone()
            bad.pc.append("(not %s)" % c)
            bad.outcome = ("panic", m.group(3))
            return [(ok, m.group(4)), (bad, None)]
        m = re.fullmatch(r"(?:(_\d+|\(.+?\)|\*_\d+) = )?(.+\)) -> (?:\[return: (bb\d+), .*\]|unwind .*|bb\d+);", t)
        if m:
            # `callee(args)`: the argument list is the last balanced parenthesis group (generic arguments of the callee
            # may contain parentheses themselves: `Option::<unsafe fn(*mut u8, usize)>::is_some(move _8)`)
            lhs, call, ret = m.group(1), m.group(2), m.group(3)
            depth, k = 0, len(call) - 1
            while k >= 0:
                if call[k] == ")":
                    depth += 1
                elif call[k] == "(":
                    depth -= 1
                    if depth == 0:
                        break
                k -= 1
            callee, args = call[:k].strip(), call[k + 1:-1]
            argv = [self.operand(p, a) for a in split_top(args)] if args.strip() else []
            for pat, h in self.summaries:
                if re.search(pat, callee):
                    res = h(self, p, callee, argv, lhs)
                    if res is None:
                        res = [p]
                    out = []
                    for q in res:
                        if q.outcome is not None:
                            out.append((q, None))
                        elif ret is None:
                            q.outcome = ("panic", "diverging call " + callee)
                            out.append((q, None))
                        else:
                            out.append((q, ret))
                    return out
            inl = self.inline_call(p, lhs, callee, argv, ret)
            if inl is not None:
                return inl
            raise Unsupported("callee without summary: " + callee)
        raise Unsupported("terminator: " + t)

    INLINE_IDS = [0]

    def lookup_fn(self, callee, nargs):
        """a function of the same crate called by path: `remove::Remove::<'_, P>::tail_len` is defined as
        `remove::<impl at src/ops/remove.rs:..>::tail_len`; matched on (first path segment, method name, arity); must be unique"""
        if not self.fns:
            return None
        plain = strip_generics(callee)
        segs = [x for x in plain.split("::") if x]
        if not segs:
            return None
        meth = segs[-1]
        cands = [f for f in self.fns if f.name.split("::")[-1] == meth and len(f.args) == nargs]
        if len(cands) > 1 and len(segs) > 1:
            c2 = [f for f in cands if strip_generics(f.name).split("::")[0] == segs[0]] or [f for f in cands if ("/" + segs[0] + ".rs") in f.name]
            cands = c2 or cands
        if len(cands) > 1 and len(segs) > 2:
            c3 = [f for f in cands if segs[-2] in f.name or ("impl at" in f.name)]
            cands = c3 or cands
        return cands[0] if len(cands) == 1 else None

    def inline_call(self, p, lhs, callee, argv, ret):
        if self.depth >= 4 or callee.startswith("core::") or callee.startswith("std::") or callee.startswith("alloc::"):
            return None
        if callee.startswith("<"):
            # `<module::Type<..> as Trait>::method`: resolvable when the implementing type is a concrete type of this crate
            m = re.match(r"^<(.+) as ([^>]+(?:<.*>)?)>::(\w+)(?:::<.*>)?$", callee)
            if not m:
                return None
            ty = strip_generics(m.group(1)).strip().lstrip("&").replace("mut ", "").strip()
            if "::" not in ty:
                return None    # a type parameter: not resolvable before monomorphisation
            callee = ty.split("::")[0] + "::" + ty.split("::")[-1] + "::" + m.group(3)
        fn = self.lookup_fn(callee, len(argv))
        if fn is None or fn.has_loop():
            return None
        Exec.INLINE_IDS[0] += 1
        sub = Exec(fn, self.summaries, self.max_paths)
        sub.lroot = "L%d:" % Exec.INLINE_IDS[0]
        sub.fns, sub.depth, sub.counter = self.fns, self.depth + 1, self.counter + 1
        for attr in ("vec_root",):
            if hasattr(self, attr):
                setattr(sub, attr, getattr(self, attr))
        for (a, t), v in zip(fn.args, argv):
            sub.write(p, sub.lroot + a, (), v)
        saved = p.outcome
        out = []
        for q in sub.run(init=p):
            self.counter = max(self.counter, sub.counter)
            if q.outcome is not None and q.outcome[0] == "return":
                q.outcome = saved
                if lhs is not None:
                    rt = (fn.ret or "()").strip()
                    if rt != "()":
                        r0 = sub.lroot + "_0"
                        v = q.cells.get((r0, ()))
                        if v is None:
                            structured = any(k[0] == r0 and k[1] for k in q.cells) or any(k[0] == r0 for k in q.links)
                            v = ("agg", r0, ()) if (structured or not is_scalar_type(rt)) else sub.read_cell(q, r0, (), rt)
                        self.set_ret(q, lhs, v)
                if ret is None:
                    q.outcome = ("panic", "diverging call " + callee)
                    out.append((q, None))
                else:
                    out.append((q, ret))
            else:
                out.append((q, None))   # panic / unsupported inside the callee ends the path
        return out

    # helpers for summaries
    def set_ret(self, p, lhs, v):
        if lhs is None:
            return
        r, pa, _ = self.place(p, parse_place(lhs))
        self.write(p, r, pa, v)

    def field_of_ref(self, p, ref, field, typ="usize"):
        if ref[0] == "agg":
            return self.read_cell(p, ref[1], ref[2] + (field,), typ)
        if ref[0] != "ref":
            raise Unsupported("expected reference argument")
        return self.read_cell(p, ref[1], ref[2] + (field,), typ)


# ------------------------------------------------------------------ summaries
def s_panic(ex, p, callee, argv, lhs):
    p.outcome = ("panic", callee)
    return [p]


def s_pseudo(field):
    def h(ex, p, callee, argv, lhs):
        ex.set_ret(p, lhs, ex.field_of_ref(p, argv[0], field))
    return h


def s_real_field(role):
    def h(ex, p, callee, argv, lhs):
        ex.set_ret(p, lhs, ex.field_of_ref(p, argv[0], POS[role] if isinstance(role, str) else role))
    return h


def s_vecraw(ex, p, callee, argv, lhs):
    """IAnyVecRawPtr::any_vec_raw(_mut): a reference to the one vector the handle points to"""
    ex.set_ret(p, lhs, ("ref", "O:vecraw", ()))


def s_event(name, invalidate=()):
    def h(ex, p, callee, argv, lhs):
        # remember what the vector's len cell holds when user-visible work (drops / moves) happens
        snap = p.cells.get(("O:vecraw", (POS["vec_len"],)))
        p.events.append((name, callee, [a for a in argv], snap))
        # capacity-like pseudo fields of the receiver become unknown
        if argv and argv[0][0] == "ref":
            for f in invalidate:
                f = POS.get(f, f)
                ex.counter += 1
                ex.write(p, argv[0][1], argv[0][2] + (f,), ex.fresh_val(p, "after_%s_%s_%d" % (name, str(f).strip("$"), ex.counter), "usize"))
        if lhs is not None:
            ex.counter += 1
            r, pa, t = ex.place(p, parse_place(lhs))
            if t.strip() != "()":
                ex.write(p, r, pa, ex.fresh_val(p, "ret_%s_%d" % (name, ex.counter), "usize"))
    return h


def s_minmax(which):
    def h(ex, p, callee, argv, lhs):
        a, b = ex.as_bv(argv[0]), ex.as_bv(argv[1])
        c = "(bvult %s %s)" % (a[1], b[1])
        t = "(ite %s %s %s)" % (c, b[1], a[1]) if which == "max" else "(ite %s %s %s)" % (c, a[1], b[1])
        ex.set_ret(p, lhs, ("bv", t, a[2]))
    return h


def s_checked(op):
    def h(ex, p, callee, argv, lhs):
        a, b = ex.as_bv(argv[0]), ex.as_bv(argv[1])
        w = a[2]
        if op == "mul":
            res = "(bvmul %s %s)" % (a[1], b[1])
            ovf = "(not (= ((_ extract %d %d) (bvmul ((_ zero_extend %d) %s) ((_ zero_extend %d) %s))) %s))" % (2 * w - 1, w, w, a[1], w, b[1], bvconst(0, w))
        elif op == "add":
            res = "(bvadd %s %s)" % (a[1], b[1])
            ovf = "(bvult %s %s)" % (res, a[1])
        else:
            res = "(bvsub %s %s)" % (a[1], b[1])
            ovf = "(bvult %s %s)" % (a[1], b[1])
        r, pa, _ = ex.place(p, parse_place(lhs))
        ex.write(p, r, pa + ("discr",), ("bv", "(ite %s %s %s)" % (ovf, bvconst(0), bvconst(1)), 64))
        ex.write(p, r, pa + (("as", "Some"), 0), ("bv", res, w))
    return h


def s_arith(op):
    """saturating_* / wrapping_* on unsigned integers"""
    def h(ex, p, callee, argv, lhs):
        a, b = ex.as_bv(argv[0]), ex.as_bv(argv[1])
        w = a[2]
        x, y = a[1], b[1]
        mx = bvconst((1 << w) - 1, w)
        if op == "saturating_add":
            r = "(ite (bvult (bvadd %s %s) %s) %s (bvadd %s %s))" % (x, y, x, mx, x, y)
        elif op == "saturating_sub":
            r = "(ite (bvult %s %s) %s (bvsub %s %s))" % (x, y, bvconst(0, w), x, y)
        elif op == "saturating_mul":
            r = "(ite (= ((_ extract %d %d) (bvmul ((_ zero_extend %d) %s) ((_ zero_extend %d) %s))) %s) (bvmul %s %s) %s)" % (2 * w - 1, w, w, x, w, y, bvconst(0, w), x, y, mx)
        elif op == "wrapping_add":
            r = "(bvadd %s %s)" % (x, y)
        elif op == "wrapping_sub":
            r = "(bvsub %s %s)" % (x, y)
        else:
            r = "(bvmul %s %s)" % (x, y)
        ex.set_ret(p, lhs, ("bv", r, w))
    return h


def s_unwrap(ex, p, callee, argv, lhs):
    o = argv[0]
    if o[0] != "agg":
        raise Unsupported("unwrap of non-aggregate")
    d = ex.read_cell(p, o[1], o[2] + ("discr",), "isize")
    none = p.clone()
    none.pc.append("(= %s %s)" % (d[1], bvconst(0)))
    none.outcome = ("panic", "unwrap/expect on None")
    p.pc.append("(not (= %s %s))" % (d[1], bvconst(0)))
    v = ex.read_cell(p, o[1], o[2] + (("as", "Some"), 0), "usize")
    ex.set_ret(p, lhs, v)
    return [p, none]


def s_abs_diff(ex, p, callee, argv, lhs):
    a, b = ex.as_bv(argv[0]), ex.as_bv(argv[1])
    ex.set_ret(p, lhs, ("bv", "(ite (bvult %s %s) (bvsub %s %s) (bvsub %s %s))" % (a[1], b[1], b[1], a[1], a[1], b[1]), a[2]))


def s_leading_zeros(ex, p, callee, argv, lhs):
    a = ex.as_bv(argv[0])
    w = a[2]
    e = bvconst(w, 32)
    for i in range(w):
        e = "(ite (= ((_ extract %d %d) %s) #b1) %s %s)" % (i, i, a[1], bvconst(w - 1 - i, 32), e)
    ex.set_ret(p, lhs, ("bv", e, 32))


def s_unwrap_or(ex, p, callee, argv, lhs):
    o = argv[0]
    if o[0] != "agg":
        raise Unsupported("unwrap_or of non-aggregate")
    d = ex.read_cell(p, o[1], o[2] + ("discr",), "isize")
    v = ex.as_bv(ex.read_cell(p, o[1], o[2] + (("as", "Some"), 0), "usize"))
    dflt = ex.as_bv(argv[1]) if len(argv) > 1 else ("bv", bvconst(0, v[2]), v[2])
    ex.set_ret(p, lhs, ("bv", "(ite (= %s %s) %s %s)" % (d[1], bvconst(0), dflt[1], v[1]), v[2]))


def s_overflowing(op):
    def h(ex, p, callee, argv, lhs):
        a, b = ex.as_bv(argv[0]), ex.as_bv(argv[1])
        w = a[2]
        x, y = a[1], b[1]
        if op == "add":
            res, ovf = "(bvadd %s %s)" % (x, y), "(bvult (bvadd %s %s) %s)" % (x, y, x)
        elif op == "sub":
            res, ovf = "(bvsub %s %s)" % (x, y), "(bvult %s %s)" % (x, y)
        else:
            res = "(bvmul %s %s)" % (x, y)
            ovf = "(not (= ((_ extract %d %d) (bvmul ((_ zero_extend %d) %s) ((_ zero_extend %d) %s))) %s))" % (2 * w - 1, w, w, x, w, y, bvconst(0, w))
        r, pa, _ = ex.place(p, parse_place(lhs))
        ex.write(p, r, pa + (0,), ("bv", res, w))
        ex.write(p, r, pa + (1,), ("bool", ovf))
    return h


def s_ptr_eq(ex, p, callee, argv, lhs):
    ex.set_ret(p, lhs, ex.binop(p, "Eq", argv[0], argv[1], None))


def s_mem_take(ex, p, callee, argv, lhs):
    d = argv[0]
    if d[0] != "ref":
        raise Unsupported("mem::take on a non-reference")
    old = ex.read_cell(p, d[1], d[2], "usize")
    ex.write(p, d[1], d[2], ("bv", bvconst(0, ex.as_bv(old)[2]), ex.as_bv(old)[2]) if old[0] == "bv" else ("bool", "false"))
    ex.set_ret(p, lhs, old)


def s_mem_replace(ex, p, callee, argv, lhs):
    """core::mem::replace::<scalar>(&mut place, new) -> old"""
    d = argv[0]
    if d[0] != "ref":
        raise Unsupported("mem::replace on a non-reference")
    old = ex.read_cell(p, d[1], d[2], "usize")
    ex.write(p, d[1], d[2], argv[1])
    ex.set_ret(p, lhs, old)


def s_mem_swap(ex, p, callee, argv, lhs):
    a, b = argv
    if a[0] != "ref" or b[0] != "ref":
        raise Unsupported("mem::swap on non-references")
    va, vb = ex.read_cell(p, a[1], a[2], "usize"), ex.read_cell(p, b[1], b[2], "usize")
    ex.write(p, a[1], a[2], vb)
    ex.write(p, b[1], b[2], va)


def s_is_some(pos):
    def h(ex, p, callee, argv, lhs):
        o = argv[0]
        if o[0] not in ("agg", "ref"):
            raise Unsupported("is_some of non-aggregate")
        d = ex.read_cell(p, o[1], o[2] + ("discr",), "isize")
        t = "(not (= %s %s))" % (d[1], bvconst(0))
        ex.set_ret(p, lhs, ("bool", t if pos else "(not %s)" % t))
    return h


def s_try_branch(ex, p, callee, argv, lhs):
    """<Option<T> as Try>::branch (the `?` operator): ControlFlow::Continue(v) for Some(v), Break(None) otherwise"""
    o = argv[0]
    if o[0] != "agg":
        raise Unsupported("Try::branch on a non-aggregate")
    d = ex.read_cell(p, o[1], o[2] + ("discr",), "isize")
    r, pa, _ = ex.place(p, parse_place(lhs))
    ex.write(p, r, pa + ("discr",), ("bv", "(ite (= %s %s) %s %s)" % (d[1], bvconst(1), bvconst(0), bvconst(1)), 64))
    ex.write(p, r, pa + (("as", "Continue"), 0), ex.read_cell(p, o[1], o[2] + (("as", "Some"), 0), "usize"))


def s_from_residual_none(ex, p, callee, argv, lhs):
    r, pa, _ = ex.place(p, parse_place(lhs))
    ex.write(p, r, pa + ("discr",), ("bv", bvconst(0), 64))


def s_nonnull_new(ex, p, callee, argv, lhs):
    """NonNull::new(ptr) -> Option<NonNull>: Some(ptr) iff ptr is not null"""
    a = ex.as_bv(argv[0])
    r, pa, _ = ex.place(p, parse_place(lhs))
    ex.write(p, r, pa + ("discr",), ("bv", "(ite (= %s %s) %s %s)" % (a[1], bvconst(0), bvconst(0), bvconst(1)), 64))
    ex.write(p, r, pa + (("as", "Some"), 0), a)


def s_unwrap_or_else(ex, p, callee, argv, lhs):
    """Option/Result::unwrap_or_else(closure): the payload on Some/Ok, otherwise the closure of this crate is executed
    (inlined). A scalar receiver (NonNull::new(..) is summarised as its pointer) is passed through."""
    o = argv[0]
    if o[0] != "agg":
        ex.set_ret(p, lhs, o)
        return None
    is_res = callee.startswith("Result::") or "Result::<" in callee
    d = ex.read_cell(p, o[1], o[2] + ("discr",), "isize")
    good = "(= %s %s)" % (d[1], bvconst(0 if is_res else 1))
    okp = p.clone()
    okp.pc.append(good)
    var = "Ok" if is_res else "Some"
    pay = o[2] + (("as", var), 0)
    structured = any(k[0] == o[1] and k[1][:len(pay)] == pay and len(k[1]) > len(pay) for k in list(okp.cells) + list(okp.links))
    ex.set_ret(okp, lhs, ("agg", o[1], pay) if structured else ex.read_cell(okp, o[1], pay, "usize"))
    bad = p
    bad.pc.append("(not %s)" % good)
    m = re.search(r"\{closure@([^}]*)\}", callee)
    clo = None
    if m and ex.fns:
        hits = [f for f in ex.fns if f.args and ("closure@" + m.group(1)) in f.args[0][1]]
        clo = hits[0] if len(hits) == 1 else None
    if clo is None or clo.has_loop():
        raise Unsupported("unwrap_or_else with a closure that cannot be resolved: " + callee)
    Exec.INLINE_IDS[0] += 1
    sub = Exec(clo, ex.summaries, ex.max_paths)
    sub.lroot = "L%d:" % Exec.INLINE_IDS[0]
    sub.fns, sub.depth, sub.counter = ex.fns, ex.depth + 1, ex.counter + 1
    if hasattr(ex, "vec_root"):
        sub.vec_root = ex.vec_root
    sub.write(bad, sub.lroot + clo.args[0][0], (), ("unit",))
    if len(clo.args) > 1:
        epay = o[2] + (("as", "Err"), 0)
        sub.write(bad, sub.lroot + clo.args[1][0], (), ex.read_cell(bad, o[1], epay, "usize"))
    outs = [okp]
    for q in sub.run(init=bad):
        ex.counter = max(ex.counter, sub.counter)
        if q.outcome is not None and q.outcome[0] == "return":
            q.outcome = None
            r0 = sub.lroot + "_0"
            v = q.cells.get((r0, ()))
            if v is None:
                v = ("agg", r0, ())
            ex.set_ret(q, lhs, v)
        outs.append(q)
    return outs


def s_bound(which):
    def h(ex, p, callee, argv, lhs):
        r, pa, _ = ex.place(p, parse_place(lhs))
        d = ex.fresh_val(p, which + "_kind", "isize")
        p.pc.append("(bvult %s %s)" % (d[1], bvconst(3)))
        ex.write(p, r, pa + ("discr",), d)
        obj = "O:" + which + "_val"
        val = ex.fresh_val(p, which + "_val", "usize")
        p.cells[(obj, ())] = val
        ex.write(p, r, pa + (("as", "Included"), 0), ("ref", obj, ()))
        ex.write(p, r, pa + (("as", "Excluded"), 0), ("ref", obj, ()))
    return h


def s_layout_unchecked(ex, p, callee, argv, lhs):
    p.events.append(("layout_unchecked", callee, [argv[0], argv[1]]))
    r, pa, _ = ex.place(p, parse_place(lhs))
    ex.write(p, r, pa + ("size",), argv[0])
    ex.write(p, r, pa + ("align",), argv[1])


def s_layout_checked(ex, p, callee, argv, lhs):
    """Layout::from_size_align(size, align) -> Result<Layout, LayoutError>: Ok iff align is a power of two and
    size <= isize::MAX - (align - 1) (the documented contract)"""
    size, align = ex.as_bv(argv[0])[1], ex.as_bv(argv[1])[1]
    pow2 = "(and (not (= %s %s)) (= (bvand %s (bvsub %s %s)) %s))" % (align, bvconst(0), align, align, bvconst(1), bvconst(0))
    fits = "(bvule %s (bvsub %s (bvsub %s %s)))" % (size, bvconst((1 << 63) - 1), align, bvconst(1))
    r, pa, _ = ex.place(p, parse_place(lhs))
    ex.write(p, r, pa + ("discr",), ("bv", "(ite (and %s %s) %s %s)" % (pow2, fits, bvconst(0), bvconst(1)), 64))
    ex.write(p, r, pa + (("as", "Ok"), 0, "size"), argv[0])
    ex.write(p, r, pa + (("as", "Ok"), 0, "align"), argv[1])
    p.events.append(("layout_checked", callee, [argv[0], argv[1]]))


def s_alloc(kind):
    def h(ex, p, callee, argv, lhs):
        def lay(v):
            return [ex.read_cell(p, v[1], v[2] + ("size",), "usize"), ex.read_cell(p, v[1], v[2] + ("align",), "usize")]
        if kind == "alloc":
            p.events.append(("alloc", callee, lay(argv[0])))
        elif kind == "dealloc":
            p.events.append(("dealloc", callee, [argv[0]] + lay(argv[1])))
        else:
            p.events.append(("realloc", callee, [argv[0]] + lay(argv[1]) + [argv[2]]))
        if lhs is not None:
            ex.counter += 1
            ex.set_ret(p, lhs, ex.fresh_val(p, "ret_%s_%d" % (kind, ex.counter), "usize"))
    return h


def s_passthrough(ex, p, callee, argv, lhs):
    ex.set_ret(p, lhs, argv[0] if argv else ("unit",))


def s_fresh(tag):
    def h(ex, p, callee, argv, lhs):
        if lhs is not None:
            ex.counter += 1
            r, pa, t = ex.place(p, parse_place(lhs))
            if is_scalar_type(t) or True:
                ex.write(p, r, pa, ex.fresh_val(p, "%s_%d" % (tag, ex.counter), "usize"))
    return h


def s_fresh_bool(tag):
    def h(ex, p, callee, argv, lhs):
        if lhs is not None:
            ex.counter += 1
            ex.set_ret(p, lhs, ex.fresh_val(p, "%s_%d" % (tag, ex.counter), "bool"))
    return h


def s_ptr_add(ex, p, callee, argv, lhs):
    a, b = argv
    if a[0] != "bv":
        raise Unsupported("pointer add on non-integer pointer model")
    p.events.append(("ptr_add", callee, [a, b]))
    ex.set_ret(p, lhs, ("bv", "(bvadd %s %s)" % (a[1], ex.as_bv(b)[1]), 64))


# element pointers produced by the summaries below: term -> (index term, element-size term). Two in-bounds element
# pointers of one allocation are equal iff their indices are equal or the elements are zero-sized (no wrap-around inside
# an allocation); deciding that from the 64-bit products would need multiplication reasoning the solvers do not finish.
ELEM_PTRS = {}

# positions of the private fields the specifications and summaries refer to, by role. Filled from the struct literals of
# the current MIR dump (obligations.set_layout), so that reordering private fields is not a change of behaviour here.
POS = {"vec_mem": 1, "vec_len": 2, "heap_ptr": 0, "heap_size": 1, "heap_layout": 2, "iter_index": 1, "iter_end": 2,
       "drain_iter": 0, "drain_start": 1, "drain_end": 2, "drain_olen": 3}


def _vec_cells(ex, p):
    """(base pointer, element size) of the vector a kernel works on: handle-based kernels reach it through
    IAnyVecRawPtr (pseudo object O:vecraw), AnyVecRaw methods are called on it directly (O:arg1, field 0 = mem)"""
    if getattr(ex, "vec_root", "O:vecraw") == "O:vecraw":
        return ex.read_cell(p, "O:vecraw", ("$base",), "usize"), ex.read_cell(p, "O:vecraw", ("$layout", "size"), "usize")
    return ex.read_cell(p, "O:arg1", (POS["vec_mem"], "$base"), "usize"), ex.read_cell(p, "O:arg1", ("$layout", "size"), "usize")


def s_elem_ptr(ex, p, callee, argv, lhs):
    """element_ptr_at / element_mut_ptr_at(any_vec_ptr, index) = base + index x element size (C13)"""
    snap = p.cells.get(("O:vecraw", (POS["vec_len"],)))
    p.events.append(("element_ptr_at", callee, [a for a in argv], snap))
    base, es = _vec_cells(ex, p)
    t = "(bvadd %s (bvmul %s %s))" % (base[1], es[1], ex.as_bv(argv[1])[1])
    ELEM_PTRS[t] = (ex.as_bv(argv[1])[1], es[1])
    ex.set_ret(p, lhs, ("bv", t, 64))


def s_remove_bytes(ex, p, callee, argv, lhs):
    """<Remove as Operation>::bytes(&self) = element_ptr_at(self.any_vec_ptr, self.index)"""
    idx = ex.field_of_ref(p, argv[0], 1)
    base, es = _vec_cells(ex, p)
    t = "(bvadd %s (bvmul %s %s))" % (base[1], es[1], ex.as_bv(idx)[1])
    ELEM_PTRS[t] = (ex.as_bv(idx)[1], es[1])
    ex.set_ret(p, lhs, ("bv", t, 64))


def s_typed_ptr_add(ex, p, callee, argv, lhs):
    """`*mut T`::add(n) for the vector's (statically known) element type: n elements = n x element size bytes"""
    a, b = argv
    _, es = _vec_cells(ex, p)
    ex.set_ret(p, lhs, ("bv", "(bvadd %s (bvmul %s %s))" % (ex.as_bv(a)[1], es[1], ex.as_bv(b)[1]), 64))


def s_copy(kind):
    """ptr::copy::<T> / ptr::copy_nonoverlapping::<T> / copy_bytes / copy_nonoverlapping_value: one `copy` event with
    (src, dst, byte count, may_overlap)"""
    def h(ex, p, callee, argv, lhs):
        _, es = _vec_cells(ex, p)
        src, dst, n = ex.as_bv(argv[0])[1], ex.as_bv(argv[1])[1], ex.as_bv(argv[2])[1]
        if kind == "typed":
            unit_u8 = re.search(r"::<u8>$", callee) is not None
            nbytes = n if unit_u8 else "(bvmul %s %s)" % (es[1], n)
            count = n
        else:
            nbytes, count = n, None
        snap = p.cells.get((getattr(ex, "vec_root", "O:vecraw"), (POS["vec_len"],)))
        p.events.append(("copy", callee, [("bv", src, 64), ("bv", dst, 64), ("bv", nbytes, 64)], snap, "nonoverlapping" in callee, count))
    return h


def s_move_into(ex, p, callee, argv, lhs):
    snap = p.cells.get((getattr(ex, "vec_root", "O:vecraw"), (POS["vec_len"],)))
    p.events.append(("move_into", callee, [argv[1], argv[2]], snap))


def s_size_of(ex, p, callee, argv, lhs):
    """size_of::<V::Type>() in a branch where the value's type is statically known: by the (type-checked) caller
    contract it is the vector's element type"""
    _, es = _vec_cells(ex, p)
    ex.set_ret(p, lhs, es)


def s_reserve_one(ex, p, callee, argv, lhs):
    """may reallocate: base pointer and capacity are new unknowns afterwards; len and element layout are untouched"""
    snap = p.cells.get(("O:arg1", (POS["vec_len"],)))
    p.events.append(("reserve_one", callee, [], snap))
    ex.counter += 1
    ex.write(p, "O:arg1", (POS["vec_mem"], "$base"), ex.fresh_val(p, "base_after_reserve_%d" % ex.counter, "usize"))
    ex.write(p, "O:arg1", ("$capacity",), ex.fresh_val(p, "cap_after_reserve_%d" % ex.counter, "usize"))


def s_slice(ex, p, callee, argv, lhs):
    p.events.append(("from_raw_parts", callee, [argv[0], argv[1]]))
    if lhs is not None:
        r, pa, _ = ex.place(p, parse_place(lhs))
        ex.write(p, r, pa + ("ptr",), argv[0])
        ex.write(p, r, pa + ("len",), argv[1])


def s_layout_val(ex, p, callee, argv, lhs):
    # returns the element Layout of the receiver as an aggregate linked to pseudo storage
    r, pa, _ = ex.place(p, parse_place(lhs))
    src = argv[0]
    ex.write(p, r, pa, ("agg", src[1], src[2] + ("$layout",)))


def s_dangling_helper(ex, p, callee, argv, lhs):
    """any_vec::mem::dangling(&Layout) -> NonNull<u8>: the address is the layout's alignment (src/mem/mod.rs)"""
    v = argv[0]
    al = ex.read_cell(p, v[1], v[2] + ("align",), "usize")
    p.events.append(("dangling", callee, [al]))
    ex.set_ret(p, lhs, al)


_PRIM_ALIGN = {"u8": 1, "i8": 1, "bool": 1, "u16": 2, "i16": 2, "u32": 4, "i32": 4, "u64": 8, "i64": 8, "usize": 8, "isize": 8, "u128": 16, "i128": 16}


def s_nonnull_dangling(ex, p, callee, argv, lhs):
    """core NonNull::<T>::dangling(): the address is align_of::<T>()"""
    m = re.search(r"NonNull::<(\w+)>::dangling$", callee)
    if not m or m.group(1) not in _PRIM_ALIGN:
        raise Unsupported("NonNull::dangling of a type whose alignment the translator does not know: " + callee)
    v = ("bv", bvconst(_PRIM_ALIGN[m.group(1)]), 64)
    p.events.append(("dangling", callee, [v]))
    ex.set_ret(p, lhs, v)


def s_is_pow2(ex, p, callee, argv, lhs):
    a = ex.as_bv(argv[0])
    w = a[2]
    ex.set_ret(p, lhs, ("bool", "(and (not (= %s %s)) (= (bvand %s (bvsub %s %s)) %s))" % (a[1], bvconst(0, w), a[1], a[1], bvconst(1, w), bvconst(0, w))))


def s_trailing_zeros(ex, p, callee, argv, lhs):
    a = ex.as_bv(argv[0])
    w = a[2]
    e = bvconst(w, 32)
    for i in range(w - 1, -1, -1):
        e = "(ite (= ((_ extract %d %d) %s) #b1) %s %s)" % (i, i, a[1], bvconst(i, 32), e)
    ex.set_ret(p, lhs, ("bv", e, 32))


SUMMARIES = [
    (r"^panic$|^panic_|core::panicking::|panic_fmt|panic_const|unwrap_failed|expect_failed|handle_alloc_error|::begin_panic|panic_display", s_panic),
    (r"AnyVecRaw::<.*>::capacity$|AnyVec::<.*>::capacity$|AnyVecTyped::<.*>::capacity$", s_pseudo("$capacity")),
    (r"AnyVec::<.*>::len$|AnyVecTyped::<.*>::len$", s_pseudo("$len")),
    (r"AnyVec::<.*>::element_layout$|AnyVecRaw::<.*>::element_layout$|as Mem>::element_layout$", s_layout_val),
    (r"<HeapMem as Mem>::size$", s_real_field("heap_size")),
    (r"as Mem>::size$", s_pseudo("$capacity")),
    (r"as Mem>::expand$", s_event("expand", ("$capacity",))),
    (r"as MemResizable>::expand_exact$", s_event("expand_exact", ("$capacity",))),
    (r"as MemResizable>::resize$", s_event("resize", ("$capacity", "heap_size"))),
    (r"as Mem>::as_ptr$|as Mem>::as_mut_ptr$", s_pseudo("$base")),
    (r"core::cmp::max::<usize>$|cmp::max::<usize>$", s_minmax("max")),
    (r"core::cmp::min::<usize>$|cmp::min::<usize>$", s_minmax("min")),
    (r"Layout::size$", s_pseudo("size")),
    (r"Layout::align$", s_pseudo("align")),
    (r"Layout::from_size_align_unchecked$", s_layout_unchecked),
    (r"Layout::from_size_align$", s_layout_checked),
    (r"<impl usize>::checked_mul$", s_checked("mul")),
    (r"<impl usize>::checked_add$", s_checked("add")),
    (r"<impl usize>::checked_sub$", s_checked("sub")),
    (r"<usize as (core::cmp::)?Ord>::max$|<impl usize>::max$", s_minmax("max")),
    (r"<usize as (core::cmp::)?Ord>::min$|<impl usize>::min$", s_minmax("min")),
    (r"<impl usize>::abs_diff$", s_abs_diff),
    (r"<impl usize>::leading_zeros$", s_leading_zeros),
    (r"<impl usize>::overflowing_add$", s_overflowing("add")),
    (r"<impl usize>::overflowing_sub$", s_overflowing("sub")),
    (r"<impl usize>::overflowing_mul$", s_overflowing("mul")),
    (r"Option::<usize>::unwrap_or$|Option::<usize>::unwrap_or_default$", s_unwrap_or),
    (r"<impl usize>::saturating_add$", s_arith("saturating_add")),
    (r"<impl usize>::saturating_sub$", s_arith("saturating_sub")),
    (r"<impl usize>::saturating_mul$", s_arith("saturating_mul")),
    (r"<impl usize>::wrapping_add$", s_arith("wrapping_add")),
    (r"<impl usize>::wrapping_sub$", s_arith("wrapping_sub")),
    (r"<impl usize>::wrapping_mul$", s_arith("wrapping_mul")),
    (r"Option::<.*>::unwrap$|Option::<.*>::expect$", s_unwrap),
    (r"mem::replace::<(usize|isize|u8|u16|u32|u64|bool)>$", s_mem_replace),
    (r"mem::take::<(usize|isize|u8|u16|u32|u64|bool)>$", s_mem_take),
    (r"ptr::eq::<.*>$|ptr::addr_eq::<.*>$", s_ptr_eq),
    (r"mem::swap::<(usize|isize|u8|u16|u32|u64|bool)>$", s_mem_swap),
    (r"Option::<.*>::is_some$", s_is_some(True)),
    (r"Option::<.*>::is_none$", s_is_some(False)),
    (r"RangeBounds<usize>>::start_bound$", s_bound("start_bound")),
    (r"RangeBounds<usize>>::end_bound$", s_bound("end_bound")),
    (r"alloc::alloc$", s_alloc("alloc")),
    (r"alloc::dealloc$", s_alloc("dealloc")),
    (r"alloc::realloc$", s_alloc("realloc")),
    (r"NonNull::<.*>::as_ptr$|NonNull::<.*>::new_unchecked$|NonNull::<.*>::cast", s_passthrough),
    (r"NonNull::<.*>::new$", s_nonnull_new),
    (r"<Option<.*> as (core::ops::)?Try>::branch$", s_try_branch),
    (r"<Option<.*> as (core::ops::)?FromResidual<.*>>::from_residual$", s_from_residual_none),
    (r"mem::dangling$", s_dangling_helper),
    (r"NonNull::<.*>::dangling$", s_nonnull_dangling),
    (r"<impl usize>::is_power_of_two$", s_is_pow2),
    (r"<impl usize>::trailing_zeros$", s_trailing_zeros),
    (r"unwrap_or_else", s_unwrap_or_else),
    (r"MaybeUninit::<.*>::uninit$", s_fresh("uninit")),
    (r"Arguments::<.*>::from_str$|Arguments::<.*>::new_const|Arguments::<.*>::new_v1", s_fresh("fmt_args")),
    (r"AnyVec::<.*>::get_unchecked(_mut)?$", s_event("get_unchecked")),
    (r"IAnyVecRawPtr>::any_vec_raw(_mut)?::<.*>$|IAnyVecRawPtr>::any_vec_raw(_mut)?$", s_vecraw),
    (r"utils::drop_elements_range::<.*>$", s_event("drop_elements_range")),
    (r"utils::move_elements_at::<.*>$", s_event("move_elements_at")),
    (r"iter::Iter::<.*>::new$|Iter::<'_, .*>::new$", s_event("iter_new")),
    (r"element_ptr_at::<.*>$|element_mut_ptr_at::<.*>$", s_elem_ptr),
    (r"<impl \*(const|mut) .+>::cast::<.*>$", s_passthrough),
    (r"ptr::copy::<.*>$|ptr::copy_nonoverlapping::<.*>$|intrinsics::copy::<.*>$|intrinsics::copy_nonoverlapping::<.*>$", s_copy("typed")),
    (r"(^|::)copy_bytes$|(^|::)copy_nonoverlapping_value::<.*>$", s_copy("bytes")),
    (r"AnyValueSizeless>::move_into::<.*>$", s_move_into),
    (r"(^|::)size_of::<.*>$", s_size_of),
    (r"AnyVecRaw::<.*>::reserve_one$", s_reserve_one),
    (r"Unknown::is::<.*>$", s_fresh_bool("unknown_is")),
    (r"ElementPointer::<.*>::new$", s_fresh("element_pointer")),
    (r"IteratorItem<.*>>::element_to_item$", s_passthrough),
    (r"<impl \*(const|mut) u8>::(add|offset|byte_add|byte_offset|wrapping_add|wrapping_byte_add)$", s_ptr_add),
    (r"<impl \*(const|mut) .+>::(byte_add|byte_offset|wrapping_byte_add)$", s_ptr_add),
    (r"<impl \*(const|mut) .+>::(add|offset|wrapping_add)$", s_typed_ptr_add),
    (r"<impl \*(const|mut) .+>::(cast_const|cast_mut)$", s_passthrough),
    (r"slice::from_raw_parts(_mut)?::<.*>$|from_raw_parts(_mut)?::<'?_?,? ?u8>$|from_raw_parts(_mut)?::<.*>$", s_slice),
]
