"""Parser for the subset of `rustc -Zunpretty=mir` text that the checked kernels of any_vec use."""
import re


class Fn:
    def __init__(self, header, name, args, ret, locals_, blocks, text):
        self.header, self.name, self.args, self.ret = header, name, args, ret
        self.locals, self.blocks, self.text = locals_, blocks, text

    def has_loop(self):
        """back edge in the CFG (ignoring cleanup blocks)"""
        succ = {}
        for b, (stmts, term) in self.blocks.items():
            succ[b] = [t for t in re.findall(r"(?:return|success|otherwise|\d+|->)\s*:?\s*(bb\d+)", term) if True]
            if term.startswith("goto"):
                succ[b] = re.findall(r"bb\d+", term)
        color = {}

        def dfs(n):
            color[n] = 1
            for m in succ.get(n, []):
                if m not in self.blocks:
                    continue
                if color.get(m) == 1:
                    return True
                if color.get(m) is None and dfs(m):
                    return True
            color[n] = 2
            return False
        return dfs("bb0")


def split_top(s, sep=","):
    """split on sep at nesting depth 0 of () [] {} <> (angle brackets only when balanced-looking)"""
    out, depth, cur = [], 0, ""
    i = 0
    while i < len(s):
        c = s[i]
        if c in "([{":
            depth += 1
        elif c in ")]}":
            depth -= 1
        elif c == "<":
            depth += 1
        elif c == ">" and (i == 0 or s[i - 1] != "-") and depth > 0:
            depth -= 1
        if c == sep and depth == 0:
            out.append(cur.strip())
            cur = ""
        else:
            cur += c
        i += 1
    if cur.strip():
        out.append(cur.strip())
    return out


def parse(text):
    fns = []
    lines = text.splitlines()
    i = 0
    while i < len(lines):
        ln = lines[i]
        if ln.startswith("fn ") and ln.rstrip().endswith("{"):
            j = i + 1
            while j < len(lines) and lines[j] != "}":
                j += 1
            body = lines[i + 1:j]
            fns.append(parse_fn(ln, body))
            i = j + 1
        else:
            i += 1
    return fns


def parse_fn(header, body):
    m = re.match(r"fn (.*?)\((.*)\) -> (.*) \{$", header)
    if not m:
        m = re.match(r"fn (.*?)\((.*)\) \{$", header)
        name, argstr, ret = m.group(1), m.group(2), "()"
    else:
        name, argstr, ret = m.group(1), m.group(2), m.group(3)
    args = []
    for a in split_top(argstr):
        am = re.match(r"(_\d+): (.*)$", a)
        if am:
            args.append((am.group(1), am.group(2)))
    locals_ = {}
    blocks = {}
    cur = None
    stmts = []
    for ln in body:
        s = ln.strip()
        lm = re.match(r"let (?:mut )?(_\d+): (.*);$", s)
        if lm and cur is None:
            locals_[lm.group(1)] = lm.group(2)
            continue
        bm = re.match(r"(bb\d+)(?: \(cleanup\))?: \{$", s)
        if bm:
            cur = bm.group(1)
            stmts = []
            continue
        if cur is not None:
            if s == "}":
                term = stmts[-1] if stmts else "unreachable;"
                blocks[cur] = (stmts[:-1], term)
                cur = None
            elif s:
                stmts.append(s)
    for a, t in args:
        locals_[a] = t
    locals_["_0"] = locals_.get("_0", ret)
    return Fn(header, name, args, ret, locals_, blocks, "\n".join([header] + body + ["}"]))


def find(fns, file_part, method, nth=0):
    """function whose name contains `file_part` (e.g. 'src/any_vec_raw.rs') and ends with ::method"""
    hits = [f for f in fns if file_part in f.name and (f.name.endswith("::" + method) or f.name == method)]
    return hits[nth] if len(hits) > nth else None
