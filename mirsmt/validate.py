"""Translator validation for Engine B: concrete inputs (boundary values, the values the repo's own tests use,
seeded random ones) are pushed through BOTH the MIR->SMT encoding (inputs fixed, the solver picks the
feasible path and the outputs) and the real functions (a generated native program calling the public API,
built in the dev and in the release profile). Any disagreement makes the run inconclusive (exit 2): the
encoder - not the library - is then suspect."""
import json
import os
import random
import re
import shutil
import subprocess
from pathlib import Path

from . import mir as M
from . import symex as S
from .symex import bvconst
from .obligations import Solver, dump_mir, sym, events, ENV, set_layout, stack_capacity_cell

MAXU = (1 << 64) - 1


class IncSolver:
    """one z3 process for the thousands of tiny validation queries (process start-up dominated otherwise)"""

    def __init__(self):
        self.p = subprocess.Popen(["z3", "-in"], stdin=subprocess.PIPE, stdout=subprocess.PIPE, stderr=subprocess.STDOUT, text=True, bufsize=1)
        self.queries = 0
        self.time = 0.0

    def check(self, decls, asserts, want_model=False, values=()):
        import time as _t
        t0 = _t.time()
        lines = ["(push)"]
        for n, sort in sorted(decls.items()):
            lines.append("(declare-const %s %s)" % (n, sort))
        for a in asserts:
            lines.append("(assert %s)" % a)
        lines.append("(check-sat)")
        self.p.stdin.write("\n".join(lines) + "\n")
        self.p.stdin.flush()
        res = self.p.stdout.readline().strip()
        out = ""
        if res == "sat" and values:
            self.p.stdin.write("(get-value (%s))\n(echo \"END\")\n" % " ".join(values))
            self.p.stdin.flush()
            while True:
                l = self.p.stdout.readline()
                if not l or l.strip() == "END":
                    break
                out += l
        self.p.stdin.write("(pop)\n")
        self.p.stdin.flush()
        self.queries += 1
        self.time += _t.time() - t0
        if res not in ("sat", "unsat", "unknown") or "(error" in out:
            return "error", res + out
        return res, out

    def close(self):
        try:
            self.p.stdin.close()
            self.p.wait(timeout=5)
        except Exception:
            self.p.kill()


def eval_path(ex, fn_paths, fixed, outputs, solver):
    """fixed: {symbol: int}; outputs(ex, p) -> {name: term}. Returns (kind, {name: value}) of the unique feasible path"""
    hits = []
    for p in fn_paths:
        asserts = list(p.pc)
        decls = dict(p.decls)
        for k, v in fixed.items():
            decls.setdefault(k, "(_ BitVec 64)")
            asserts.append("(= %s %s)" % (k, bvconst(v)))
        r, _ = solver.check(decls, asserts)
        if r == "sat":
            hits.append(p)
        elif r != "unsat":
            return ("error", {})
    if len(hits) != 1:
        return ("ambiguous:%d" % len(hits), {})
    p = hits[0]
    kind = p.outcome[0]
    vals = {}
    if kind == "return" or True:
        outs = outputs(ex, p)
        decls = dict(p.decls)
        asserts = list(p.pc)
        for k, v in fixed.items():
            decls.setdefault(k, "(_ BitVec 64)")
            asserts.append("(= %s %s)" % (k, bvconst(v)))
        for name, term in outs.items():
            decls["vout_" + name] = "(_ BitVec 64)"
            asserts.append("(= vout_%s %s)" % (name, term))
        r, out = solver.check(decls, asserts, want_model=True, values=["vout_" + n for n in outs])
        if r == "sat":
            for name in outs:
                m = re.search(r"\(vout_%s\s+(#x[0-9a-fA-F]+|#b[01]+)\)" % re.escape(name), out)
                if m:
                    v = m.group(1)
                    vals[name] = int(v[2:], 16) if v.startswith("#x") else int(v[2:], 2)
    return (kind, vals)


def cases_range(rng):
    vals = [0, 1, 2, 3, 5, MAXU, MAXU - 1, 1 << 63]
    out = []
    for ln in (0, 1, 3, 5, MAXU, MAXU - 1):
        for sk in (0, 1, 2):
            for ek in (0, 1, 2):
                for _ in range(2):
                    out.append((ln, sk, rng.choice(vals + [ln, ln - 1 if ln else 0]), ek, rng.choice(vals + [ln, ln - 1 if ln else 0])))
    # the ranges of the repo's own tests: 0..5, 2..=4 style on small vectors
    out += [(10, 0, 2, 1, 5), (10, 0, 2, 0, 4), (3, 2, 0, 2, 0), (5, 0, 1, 1, 3)]
    return out


def cases_reserve(rng):
    out = []
    for ln, cap in ((0, 0), (1, 1), (1, 4), (3, 3), (3, 8), (0, 5), (7, 7)):
        for add in (0, 1, 2, 5, 100, MAXU, MAXU - ln, MAXU - ln + 1 if ln else MAXU, (1 << 63)):
            out.append((ln, cap, add & MAXU))
    return out


NATIVE_MAIN = r'''
use any_vec::AnyVec;
use any_vec::mem::{Heap, Stack, StackN};
use any_vec::traits::None;
use std::ops::Bound;
use std::panic::{catch_unwind, AssertUnwindSafe};
#[derive(Clone)] struct Z;
fn bound(k: u64, v: usize) -> Bound<usize> { match k { 0 => Bound::Included(v), 1 => Bound::Excluded(v), _ => Bound::Unbounded } }
fn zvec(len: usize, cap: usize) -> AnyVec<dyn None, Heap> {
    let mut v: AnyVec<dyn None, Heap> = AnyVec::new::<Z>();
    v.reserve_exact(cap);
    unsafe { v.set_len(len) };
    v
}
fn main() {
    std::panic::set_hook(Box::new(|_| {}));
    let args: Vec<String> = std::env::args().collect();
    let cases: Vec<Vec<u64>> = std::fs::read_to_string(&args[1]).unwrap().lines().map(|l| l.split_whitespace().skip(1).map(|x| x.parse().unwrap()).collect()).collect();
    let kinds: Vec<String> = std::fs::read_to_string(&args[1]).unwrap().lines().map(|l| l.split_whitespace().next().unwrap().to_string()).collect();
    for (k, c) in kinds.iter().zip(cases.iter()) {
        match k.as_str() {
            "range" => {
                let (len, sk, sv, ek, ev) = (c[0] as usize, c[1], c[2] as usize, c[3], c[4] as usize);
                let r = catch_unwind(AssertUnwindSafe(|| {
                    let mut v: AnyVec<dyn None, Stack<0>> = AnyVec::new_in::<Z>(Stack::<0>);
                    unsafe { v.set_len(len) };
                    let n = { let d = v.drain((bound(sk, sv), bound(ek, ev))); let n = d.len(); std::mem::forget(d); n };
                    let start = v.len();
                    unsafe { v.set_len(0) };
                    (start, start.wrapping_add(n))
                }));
                match r { Ok((s, e)) => println!("range return {} {}", s, e), Err(_) => println!("range panic") }
            }
            "reserve" | "reserve_exact" => {
                let (len, cap, add) = (c[0] as usize, c[1] as usize, c[2] as usize);
                let r = catch_unwind(AssertUnwindSafe(|| {
                    let mut v = zvec(len, cap);
                    if k == "reserve" { v.reserve(add) } else { v.reserve_exact(add) }
                    let c2 = v.capacity();
                    unsafe { v.set_len(0) };
                    c2
                }));
                match r { Ok(c2) => println!("{} return {}", k, c2), Err(_) => println!("{} panic", k) }
            }
            "shrink_to" => {
                let (len, cap, m) = (c[0] as usize, c[1] as usize, c[2] as usize);
                let r = catch_unwind(AssertUnwindSafe(|| { let mut v = zvec(len, cap); v.shrink_to(m); let c2 = v.capacity(); unsafe { v.set_len(0) }; c2 }));
                match r { Ok(c2) => println!("shrink_to return {}", c2), Err(_) => println!("shrink_to panic") }
            }
            _ => {}
        }
    }
    // const-generic kernels: fixed grid
    macro_rules! st { ($s:expr, $t:ty) => { { let v: AnyVec<dyn None, Stack<$s>> = AnyVec::new_in::<$t>(Stack::<$s>); println!("stack {} {} return {}", $s as usize, std::mem::size_of::<$t>(), v.capacity()); } } }
    st!(0, u8); st!(7, u8); st!(7, u16); st!(8, u16); st!(23, [u8; 3]); st!(24, u64); st!(25, u64); st!(100, [u64; 3]); st!(5, Z);
    macro_rules! sn { ($n:expr, $s:expr, $t:ty) => { { let r = catch_unwind(|| { let v: AnyVec<dyn None, StackN<$n, $s>> = AnyVec::new_in::<$t>(StackN::<$n, $s>); v.capacity() }); match r { Ok(c) => println!("stackn {} {} {} return {}", $n as usize, $s as usize, std::mem::size_of::<$t>(), c), Err(_) => println!("stackn {} {} {} panic", $n as usize, $s as usize, std::mem::size_of::<$t>()) } } } }
    sn!(0, 0, u8); sn!(2, 2, u8); sn!(3, 2, u8); sn!(2, 5, [u8; 3]); sn!(2, 6, [u8; 3]); sn!(1, 7, u64); sn!(1, 8, u64); sn!(4, 0, Z);
    sn!(9223372036854775809usize, 8usize, u16); sn!(4611686018427387904usize, 0usize, u32);
}
'''


def native_results(repo, work, case_lines):
    work = Path(work) / "bval"
    if work.exists():
        shutil.rmtree(work)
    (work / "src").mkdir(parents=True)
    (work / "Cargo.toml").write_text('[package]\nname = "bval"\nversion = "0.0.0"\nedition = "2021"\n[dependencies]\nany_vec = { path = "%s" }\n[workspace]\n' % repo)
    (work / "src" / "main.rs").write_text(NATIVE_MAIN)
    (work / "cases.txt").write_text("\n".join(case_lines) + "\n")
    res = {}
    for prof, flag in (("on", []), ("off", ["--release"])):
        p = subprocess.run(["cargo", "run", "--offline", "-q", "--target-dir", str(work / "target")] + flag + ["--", str(work / "cases.txt")], cwd=work, env=ENV,
                           stdout=subprocess.PIPE, stderr=subprocess.PIPE, text=True)
        if p.returncode != 0:
            raise RuntimeError("native validation program failed (%s): %s" % (prof, p.stderr[-400:]))
        res[prof] = p.stdout.strip().splitlines()
    shutil.rmtree(work, ignore_errors=True)
    return res


def run(repo, work, seed=0):
    """-> dict(compared=N, disagreements=[...])"""
    rng = random.Random(seed)
    rc = cases_range(rng)
    rs = cases_reserve(rng)
    lines = ["range %d %d %d %d %d" % c for c in rc]
    lines += ["reserve %d %d %d" % c for c in rs] + ["reserve_exact %d %d %d" % c for c in rs]
    shr = [(ln, cap, m) for (ln, cap) in ((0, 0), (1, 4), (3, 3), (2, 8)) for m in (0, 1, 2, 3, 5, 8, 9, 100, MAXU)]
    lines += ["shrink_to %d %d %d" % c for c in shr]
    nat = native_results(repo, work, lines)
    solver = IncSolver()
    dis = []
    compared = 0
    for mode in ("on", "off"):
        text = dump_mir(repo, Path(work) / "bval_mir", mode)
        fns = M.parse(text)
        set_layout(text)
        out = nat[mode]
        # --- into_range
        fn = M.find(fns, "into_range", "into_range")
        ex = S.Exec(fn)
        ex.fns = fns
        paths = ex.run()
        for i, c in enumerate(rc):
            fixed = {"a1": c[0], "start_bound_kind": c[1], "start_bound_val": c[2], "end_bound_kind": c[3], "end_bound_val": c[4]}
            kind, vals = eval_path(ex, paths, fixed, lambda ex, p: {"s": ex.read_cell(p, "L:_0", (0,), "usize")[1], "e": ex.read_cell(p, "L:_0", (1,), "usize")[1]} if p.outcome[0] == "return" else {}, solver)
            want = out[i].split()
            compared += 1
            got = ["range", "panic"] if kind == "panic" else ["range", "return", str(vals.get("s")), str(vals.get("e"))]
            if got != want:
                dis.append("into_range[%s] %s: encoding %s, real %s" % (mode, c, got[1:], want[1:]))
        base = len(rc)
        # --- reserve / reserve_exact / shrink_to: outcome kind and (no event => capacity unchanged; event => requested growth)
        for j, (meth, ev, cases) in enumerate((("reserve", "expand", rs), ("reserve_exact", "expand_exact", rs), ("shrink_to", "resize", shr))):
            fn = M.find(fns, "src/any_vec_raw.rs", meth)
            ex = S.Exec(fn)
            ex.fns = fns
            paths = ex.run()
            for i, c in enumerate(cases):
                fixed = {"in_arg1__%d" % S.POS["vec_len"]: c[0], "in_arg1___capacity": c[1], "a2": c[2]}

                def outs(ex, p, ev=ev):
                    es = events(p, ev)
                    return {"n": ex.as_bv(es[0][2][1])[1]} if es else {}
                kind, vals = eval_path(ex, paths, fixed, outs, solver)
                want = out[base + i].split()
                compared += 1
                if kind == "panic":
                    ok = want[1] == "panic"
                elif kind == "return":
                    if want[1] != "return":
                        ok = False
                    else:
                        c2 = int(want[2])
                        if "n" not in vals:
                            ok = (c2 == c[1])               # no capacity call <=> capacity unchanged
                        elif meth == "reserve":
                            ok = (c2 == max(2 * c[1], c[1] + vals["n"]))   # HeapMem::expand applied to the requested amount
                        elif meth == "reserve_exact":
                            ok = (c2 == c[1] + vals["n"])
                        else:
                            ok = (c2 == vals["n"])
                else:
                    ok = False
                if not ok:
                    dis.append("%s[%s] %s: encoding %s %s, real %s" % (meth, mode, c, kind, vals, want[1:]))
            base += len(cases)
        # --- const-generic kernels
        for line in out[base:]:
            w = line.split()
            compared += 1
            if w[0] == "stack":
                fn = M.find(fns, "src/mem/stack.rs", "build")
                ex = S.Exec(fn)
                ex.fns = fns
                paths = ex.run()
                fixed = {"cg_SIZE": int(w[1]), "in_arg2__size": int(w[2])}
                kind, vals = eval_path(ex, paths, fixed, lambda ex, p: {"cap": stack_capacity_cell(ex, p)} if p.outcome[0] == "return" else {}, solver)
                got = "return %s" % vals.get("cap") if kind == "return" else kind
                if got != " ".join(w[3:]):
                    dis.append("Stack::build[%s] %s: encoding %s, real %s" % (mode, w[1:3], got, w[3:]))
            elif w[0] == "stackn":
                fn = M.find(fns, "src/mem/stack_n.rs", "build")
                ex = S.Exec(fn)
                ex.fns = fns
                paths = ex.run()
                fixed = {"cg_N": int(w[1]), "cg_SIZE": int(w[2]), "in_arg2__size": int(w[3])}
                kind, vals = eval_path(ex, paths, fixed, lambda ex, p: {}, solver)
                if kind != w[4]:
                    dis.append("StackN::build[%s] %s: encoding %s, real %s" % (mode, w[1:4], kind, w[4:]))
    solver.close()
    shutil.rmtree(Path(work) / "bval_mir", ignore_errors=True)
    return {"compared": compared, "disagreements": dis, "solver_queries": solver.queries, "solver_s": round(solver.time, 2)}


if __name__ == "__main__":
    r = run("/repo", "/verif/.work/bval_cli")
    print(json.dumps(r, indent=1)[:3000])
