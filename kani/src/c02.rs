//! C02 – drain / splice vs the Vec model: every range (all RangeBounds forms), replacement
//! sequence and consumption pattern, erased and typed, from an arbitrary valid state.

use crate::backends::Backend;
use crate::elems::{self, Elem};
use crate::fault;
use crate::model::*;
use crate::state::*;
use crate::sym::*;
use crate::vp_assert;
use any_vec::any_value::*;
use any_vec::traits::Trait;
use any_vec::{AnyVec, SatisfyTraits};
use core::any::TypeId;
use core::marker::PhantomData;
use core::mem::{size_of, ManuallyDrop, MaybeUninit};
use core::ops::Bound;
use core::ptr::NonNull;

#[derive(Copy, Clone, Debug)]
pub struct P2 {
    pub cap: Dim,
    pub len: Dim,
    pub start: Dim,
    pub end: Dim,
    /// max items taken from each end (loop bound)
    pub fb: usize,
    /// items taken from the front / from the back before the iterator is dropped
    pub f: Dim,
    pub b: Dim,
    /// replacement length
    pub r: Dim,
    /// RangeBounds form: 3 * start kind + end kind (start: Included / Excluded(s-1) / Unbounded, end:
    /// Excluded / Included(e-1) / Unbounded); `Sym(8)` = every form in one query
    pub form: Dim,
}

/// the range `s..e` in an arbitrary RangeBounds form that denotes it
pub fn mk_range(s: usize, e: usize, len: usize, form: Dim) -> (Bound<usize>, Bound<usize>) {
    let fm = form.get();
    assume(fm < 9);
    let sk = fm / 3;
    let ek = fm % 3;
    let sb = match sk {
        0 => Bound::Included(s),
        1 => {
            assume(s > 0);
            Bound::Excluded(s - 1)
        }
        _ => {
            assume(s == 0);
            Bound::Unbounded
        }
    };
    let eb = match ek {
        0 => Bound::Excluded(e),
        1 => {
            assume(e > 0);
            Bound::Included(e - 1)
        }
        _ => {
            assume(e == len);
            Bound::Unbounded
        }
    };
    (sb, eb)
}

/// Consume `f` items from the front and `b` from the back of a range iterator over `[s, e)` of
/// model `m`, checking identity/order of each yielded item and `len()` at each step.
macro_rules! consume_erased {
    ($d:expr, $m:expr, $s:expr, $e:expr, $f:expr, $b:expr, $fb:expr, $E:ty) => {{
        let total = $e - $s;
        vp_assert!($d.len() == total, "VP: range iterator len() differs from range size");
        let mut k = 0;
        while k < $fb {
            if k < $f {
                let it = $d.next();
                vp_assert!(it.is_some(), "VP: range iterator ended early (front)");
                let it = it.unwrap();
                let (id, tag) = ($m.id[$s + k], $m.tag[$s + k]);
                vp_assert!(it.value_typeid() == TypeId::of::<$E>(), "VP: drained element reports wrong type id");
                if any_bool() {
                    let val = it.downcast::<$E>();
                    vp_assert!(val.is_some(), "VP: downcast of drained element failed");
                    check_elem::<$E>(&val.unwrap(), id, tag);
                } else {
                    {
                        let r = it.downcast_ref::<$E>();
                        vp_assert!(r.is_some(), "VP: downcast_ref of drained element failed");
                        check_elem::<$E>(r.unwrap(), id, tag);
                    }
                    drop(it);
                }
                if <$E as Elem>::TRACKED {
                    vp_assert!(elems::live(id) == 0 && elems::drops(id) == 1, "VP: consumed drained element must be destroyed exactly once");
                }
                vp_assert!($d.len() == total - k - 1, "VP: range iterator len() wrong after next()");
            }
            k += 1;
        }
        let mut k = 0;
        while k < $fb {
            if k < $b {
                let it = $d.next_back();
                vp_assert!(it.is_some(), "VP: range iterator ended early (back)");
                let it = it.unwrap();
                let (id, tag) = ($m.id[$e - 1 - k], $m.tag[$e - 1 - k]);
                {
                    let r = it.downcast_ref::<$E>();
                    vp_assert!(r.is_some(), "VP: downcast_ref of drained element failed");
                    check_elem::<$E>(r.unwrap(), id, tag);
                }
                drop(it);
                if <$E as Elem>::TRACKED {
                    vp_assert!(elems::live(id) == 0 && elems::drops(id) == 1, "VP: consumed drained element must be destroyed exactly once");
                }
                vp_assert!($d.len() == total - $f - k - 1, "VP: range iterator len() wrong after next_back()");
            }
            k += 1;
        }
    }};
}

macro_rules! consume_typed {
    ($d:expr, $m:expr, $s:expr, $e:expr, $f:expr, $b:expr, $fb:expr, $E:ty) => {{
        let total = $e - $s;
        vp_assert!($d.len() == total, "VP: typed range iterator len() differs from range size");
        let mut k = 0;
        while k < $fb {
            if k < $f {
                let it = $d.next();
                vp_assert!(it.is_some(), "VP: typed range iterator ended early (front)");
                check_elem::<$E>(&it.unwrap(), $m.id[$s + k], $m.tag[$s + k]);
                vp_assert!($d.len() == total - k - 1, "VP: typed range iterator len() wrong after next()");
            }
            k += 1;
        }
        let mut k = 0;
        while k < $fb {
            if k < $b {
                let it = $d.next_back();
                vp_assert!(it.is_some(), "VP: typed range iterator ended early (back)");
                check_elem::<$E>(&it.unwrap(), $m.id[$e - 1 - k], $m.tag[$e - 1 - k]);
                vp_assert!($d.len() == total - $f - k - 1, "VP: typed range iterator len() wrong after next_back()");
            }
            k += 1;
        }
    }};
}

fn pick_range(p: &P2, len: usize) -> (usize, usize) {
    let s = p.start.get();
    let e = p.end.get();
    assume(s <= e && e <= len);
    (s, e)
}

fn pick_fb(p: &P2, s: usize, e: usize) -> (usize, usize) {
    let f = p.f.get();
    let b = p.b.get();
    assume(f <= p.fb && b <= p.fb && f + b <= e - s);
    (f, b)
}

pub fn drain_h<Tr: ?Sized + Trait, B: Backend, E: Elem + SatisfyTraits<Tr>>(p: P2, typed: bool) {
    reset_all();
    let (mut v, mut m) = build::<Tr, B, E>(p.cap, p.len, 0);
    let (s, e) = pick_range(&p, m.len);
    let (f, b) = pick_fb(&p, s, e);
    let rng = mk_range(s, e, m.len, p.form);
    let cap = v.capacity();
    if typed {
        let mut t = v.downcast_mut::<E>().unwrap();
        let mut d = t.drain(rng);
        consume_typed!(d, m, s, e, f, b, p.fb, E);
        drop(d);
    } else {
        let mut d = v.drain(rng);
        consume_erased!(d, m, s, e, f, b, p.fb, E);
        drop(d);
    }
    // every element of the range is gone exactly once, the others untouched
    if E::TRACKED {
        let k = any_usize();
        if k < m.len {
            let id = m.id[k];
            if k >= s && k < e {
                vp_assert!(elems::live(id) == 0 && elems::drops(id) == 1, "VP: drained element must be destroyed exactly once");
            } else {
                vp_assert!(elems::live(id) == 1 && elems::drops(id) == 0, "VP: element outside the drained range must stay alive");
            }
        }
    }
    m.drain(s, e);
    check_vec::<Tr, B, E>(&v, &m);
    vp_assert!(v.capacity() == cap, "VP: drain changed capacity");
    drop(v);
    check_all_gone::<E>(false);
    reached_end();
}

/// Replacement sequence: `n` values living in harness-owned slots, handed out either as owned
/// wrappers (typed fast path) or as raw pointers (byte path). `delta` misreports `len()` (C06).
pub struct Rep<E: Elem, const RAW: bool> {
    pub slots: *mut E,
    pub n: usize,
    pub k: usize,
    pub delta: isize,
    pub ph: PhantomData<E>,
}
impl<E: Elem> Iterator for Rep<E, false> {
    type Item = AnyValueWrapper<E>;
    fn next(&mut self) -> Option<Self::Item> {
        fault::tick();
        if self.k < self.n {
            let v = unsafe { core::ptr::read(self.slots.add(self.k)) };
            self.k += 1;
            Some(AnyValueWrapper::new(v))
        } else {
            None
        }
    }
    fn size_hint(&self) -> (usize, Option<usize>) {
        let l = ((self.n - self.k) as isize + self.delta) as usize;
        (l, Some(l))
    }
}
impl<E: Elem> ExactSizeIterator for Rep<E, false> {
    fn len(&self) -> usize {
        ((self.n - self.k) as isize + self.delta) as usize
    }
}
impl<E: Elem> Iterator for Rep<E, true> {
    type Item = AnyValueRaw;
    fn next(&mut self) -> Option<Self::Item> {
        fault::tick();
        if self.k < self.n {
            let p = unsafe { self.slots.add(self.k) };
            self.k += 1;
            Some(unsafe { AnyValueRaw::new(NonNull::new_unchecked(p as *mut u8), size_of::<E>(), TypeId::of::<E>()) })
        } else {
            None
        }
    }
    fn size_hint(&self) -> (usize, Option<usize>) {
        let l = ((self.n - self.k) as isize + self.delta) as usize;
        (l, Some(l))
    }
}
impl<E: Elem> ExactSizeIterator for Rep<E, true> {
    fn len(&self) -> usize {
        ((self.n - self.k) as isize + self.delta) as usize
    }
}
/// typed replacement (items are plain `E`)
pub struct RepT<E: Elem> {
    pub slots: *mut E,
    pub n: usize,
    pub k: usize,
    pub delta: isize,
}
impl<E: Elem> Iterator for RepT<E> {
    type Item = E;
    fn next(&mut self) -> Option<E> {
        fault::tick();
        if self.k < self.n {
            let v = unsafe { core::ptr::read(self.slots.add(self.k)) };
            self.k += 1;
            Some(v)
        } else {
            None
        }
    }
    fn size_hint(&self) -> (usize, Option<usize>) {
        let l = ((self.n - self.k) as isize + self.delta) as usize;
        (l, Some(l))
    }
}
impl<E: Elem> ExactSizeIterator for RepT<E> {
    fn len(&self) -> usize {
        ((self.n - self.k) as isize + self.delta) as usize
    }
}

pub const RMAX: usize = 4;

/// fills `n` replacement slots with fresh values NEW_ID+k and returns their (ids, tags)
pub fn fill_slots<E: Elem>(slots: &mut [MaybeUninit<E>; RMAX], n: usize) -> ([u8; 4], [u8; 4]) {
    let mut rid = [0u8; 4];
    let mut rtag = [0u8; 4];
    let mut k = 0;
    while k < RMAX {
        if k < n {
            let tag = any_u8();
            slots[k].write(E::make(NEW_ID + k as u8, tag));
            rid[k] = NEW_ID + k as u8;
            rtag[k] = E::norm(tag);
        }
        k += 1;
    }
    (rid, rtag)
}

#[derive(Copy, Clone, Debug, PartialEq, Eq)]
pub enum RepKind {
    Wrapper,
    Raw,
}

pub fn splice_h<Tr: ?Sized + Trait, B: Backend, E: Elem + SatisfyTraits<Tr>>(p: P2, typed: bool, kind: RepKind) {
    reset_all();
    let (mut v, mut m) = build::<Tr, B, E>(p.cap, p.len, 0);
    let (s, e) = pick_range(&p, m.len);
    let (f, b) = pick_fb(&p, s, e);
    let n = p.r.get();
    assume(n <= RMAX);
    if !B::RESIZABLE {
        // the result fits the fixed capacity
        assume(m.len - (e - s) + n <= v.capacity());
    }
    let rng = mk_range(s, e, m.len, p.form);
    let mut slots: [MaybeUninit<E>; RMAX] = unsafe { MaybeUninit::uninit().assume_init() };
    let (rid, rtag) = fill_slots::<E>(&mut slots, n);
    let sp = slots.as_mut_ptr() as *mut E;
    if typed {
        let mut t = v.downcast_mut::<E>().unwrap();
        let mut d = t.splice(rng, RepT::<E> { slots: sp, n, k: 0, delta: 0 });
        consume_typed!(d, m, s, e, f, b, p.fb, E);
        drop(d);
    } else {
        match kind {
            RepKind::Wrapper => {
                let mut d = v.splice(rng, Rep::<E, false> { slots: sp, n, k: 0, delta: 0, ph: PhantomData });
                consume_erased!(d, m, s, e, f, b, p.fb, E);
                drop(d);
            }
            RepKind::Raw => {
                let mut d = v.splice(rng, Rep::<E, true> { slots: sp, n, k: 0, delta: 0, ph: PhantomData });
                consume_erased!(d, m, s, e, f, b, p.fb, E);
                drop(d);
            }
        }
    }
    if E::TRACKED {
        let k = any_usize();
        if k < m.len {
            let id = m.id[k];
            if k >= s && k < e {
                vp_assert!(elems::live(id) == 0 && elems::drops(id) == 1, "VP: spliced-out element must be destroyed exactly once");
            } else {
                vp_assert!(elems::live(id) == 1 && elems::drops(id) == 0, "VP: element outside the spliced range must stay alive");
            }
        }
    }
    m.splice(s, e, n, &rid, &rtag);
    check_vec::<Tr, B, E>(&v, &m);
    drop(v);
    check_all_gone::<E>(false);
    reached_end();
}

#[derive(Copy, Clone, Debug, PartialEq, Eq)]
pub enum BadRange {
    /// start = end + 1 (+d)
    StartAfterEnd,
    /// end = len + 1 (+d)
    EndAfterLen,
    /// ..=usize::MAX : computing the exclusive end overflows
    InclusiveMax,
    /// (Excluded(usize::MAX), ..) : computing the inclusive start overflows
    ExcludedMaxStart,
}

#[derive(Copy, Clone, Debug, PartialEq, Eq)]
pub enum RangeOp {
    Drain,
    Splice,
    TDrain,
    TSplice,
}

/// invalid ranges must panic (in `into_range`) before anything changes
pub fn bad_range<Tr: ?Sized + Trait, B: Backend, E: Elem + SatisfyTraits<Tr>>(p: P2, bad: BadRange, op: RangeOp) {
    reset_all();
    let (mut v, m) = build::<Tr, B, E>(p.cap, p.len, 0);
    let len = m.len;
    let d = any_usize();
    assume(d <= 1);
    let rng: (Bound<usize>, Bound<usize>) = match bad {
        BadRange::StartAfterEnd => {
            let e = p.end.get();
            assume(e <= len);
            let s = e + 1 + d;
            if any_bool() {
                (Bound::Included(s), Bound::Excluded(e))
            } else {
                assume(e > 0);
                (Bound::Excluded(s - 1), Bound::Included(e - 1))
            }
        }
        BadRange::EndAfterLen => {
            let s = p.start.get();
            assume(s <= len);
            let e = len + 1 + d;
            if any_bool() {
                (Bound::Included(s), Bound::Excluded(e))
            } else {
                (if s == 0 { Bound::Unbounded } else { Bound::Included(s) }, Bound::Included(e - 1))
            }
        }
        BadRange::InclusiveMax => {
            let s = p.start.get();
            assume(s <= len);
            (Bound::Included(s), Bound::Included(usize::MAX - d))
        }
        BadRange::ExcludedMaxStart => (Bound::Excluded(usize::MAX), if any_bool() { Bound::Unbounded } else { Bound::Excluded(len) }),
    };
    let mut slots: [MaybeUninit<E>; RMAX] = unsafe { MaybeUninit::uninit().assume_init() };
    let sp = slots.as_mut_ptr() as *mut E;
    must_panic("", || match op {
        RangeOp::Drain => {
            let _ = v.drain(rng);
        }
        RangeOp::Splice => {
            let _ = v.splice(rng, Rep::<E, false> { slots: sp, n: 0, k: 0, delta: 0, ph: PhantomData });
        }
        RangeOp::TDrain => {
            let mut t = v.downcast_mut::<E>().unwrap();
            let _ = t.drain(rng);
        }
        RangeOp::TSplice => {
            let mut t = v.downcast_mut::<E>().unwrap();
            let _ = t.splice(rng, RepT::<E> { slots: sp, n: 0, k: 0, delta: 0 });
        }
    });
    check_vec::<Tr, B, E>(&v, &m);
    drop(v);
    check_all_gone::<E>(false);
    reached_end();
}
