//! Fault points for C06: every invocation of user code (element Drop / Clone, replacement
//! iterator `next`) ticks a counter; at tick number `FAULT_AT` the registered inspector looks at
//! every vector of the harness at that instant and the path ends (Kani) / a real panic unwinds
//! (native replay).

pub static mut FAULT_AT: usize = 0; // 0 = no fault
pub static mut TICKS: usize = 0;
pub static mut FAULTED: bool = false;
/// which inspection routine to run (set by the harness; plain integer so that CBMC needs no
/// function-pointer resolution)
pub static mut INSPECTOR: u8 = 0;

pub fn reset() {
    unsafe {
        FAULT_AT = 0;
        TICKS = 0;
        FAULTED = false;
        INSPECTOR = 0;
    }
}

pub fn ticks() -> usize {
    unsafe { TICKS }
}

#[inline(always)]
pub fn tick() {
    unsafe {
        TICKS += 1;
        if FAULT_AT != 0 && TICKS == FAULT_AT && !FAULTED {
            FAULTED = true;
            crate::c06::at_fault(INSPECTOR);
        }
    }
}
