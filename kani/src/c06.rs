//! C06 – panicking or misreporting user code cannot corrupt a vector.
//!
//! Kani cannot unwind. "The k-th invocation of user code panics" is encoded as: at tick number
//! FAULT_AT (solver-chosen) the inspector below looks at every registered vector *at that instant*
//! and the path ends. Native replay panics for real at the same tick, unwinds through the library,
//! and the harness then inspects, uses and drops the vectors.

use crate::backends::Backend;
use crate::c02::{fill_slots, Rep, RepT, RMAX};
use crate::c03::check_valid_leaky;
use crate::elems::{self, Elem};
use crate::fault;
use crate::model::*;
use crate::state::*;
use crate::sym::*;
use crate::vp_assert;
use any_vec::any_value::*;
use any_vec::traits::{Cloneable, Trait};
use any_vec::{AnyVec, SatisfyTraits};
use core::marker::PhantomData;
use core::mem::MaybeUninit;

pub trait FaultInspect {
    fn inspect(&self);
}
pub struct FInsp<Tr: ?Sized + Trait, B: Backend, E: Elem> {
    v0: *const AnyVec<Tr, B>,
    v1: *const AnyVec<Tr, B>,
    ph: PhantomData<E>,
}
impl<Tr: ?Sized + Trait, B: Backend, E: Elem> FaultInspect for FInsp<Tr, B, E> {
    fn inspect(&self) {
        unsafe {
            let v0 = if self.v0.is_null() { None } else { Some(&*self.v0) };
            let v1 = if self.v1.is_null() { None } else { Some(&*self.v1) };
            if let Some(v) = v0 {
                inspect_one::<Tr, B, E>(v, v1);
            }
            if let Some(v) = v1 {
                inspect_one::<Tr, B, E>(v, None);
            }
        }
    }
}
/// trait-object dispatch (vtable targets restricted to impls of FaultInspect), not a `fn()` pointer
pub static mut F_OBJ: Option<*const dyn FaultInspect> = None;

pub fn reset() {
    unsafe {
        F_OBJ = None;
    }
}

pub struct FaultPanic;

pub fn at_fault(_which: u8) {
    unsafe {
        if let Some(p) = F_OBJ {
            (*p).inspect();
        }
    }
    #[cfg(kani)]
    stop_path("fault point inspected");
    #[cfg(not(kani))]
    std::panic::panic_any(FaultPanic);
}

/// what every vector must satisfy at any instant user code can observe it (and after unwinding)
fn inspect_one<Tr: ?Sized + Trait, B: Backend, E: Elem>(v: &AnyVec<Tr, B>, other: Option<&AnyVec<Tr, B>>) {
    vp_assert!(v.len() <= v.capacity(), "VP: len exceeds capacity at a fault point");
    if E::ZST {
        return;
    }
    let t = v.downcast_ref::<E>().unwrap();
    let s = t.as_slice();
    let a = any_usize();
    let b = any_usize();
    let one = |a: usize, b: usize| {
        if a < s.len() {
            vp_assert!(s[a].intact(), "VP: a corrupted element is visible at a fault point");
            if E::TRACKED {
                vp_assert!(elems::live(s[a].id()) == 1, "VP: an element that is not alive (destroyed / being destroyed / moved out) is visible at a fault point");
            }
            if b < s.len() && a != b {
                vp_assert!(s[a].id() != s[b].id(), "VP: the same element is visible twice at a fault point");
            }
            if let Some(o) = other {
                let so = o.downcast_ref::<E>().unwrap();
                let so = so.as_slice();
                if b < so.len() {
                    vp_assert!(s[a].id() != so[b].id(), "VP: the same element is visible in two vectors at a fault point");
                }
            }
        }
    };
    #[cfg(kani)]
    one(a, b);
    #[cfg(not(kani))]
    {
        let _ = (a, b);
        let n = s.len().max(other.map(|o| o.len()).unwrap_or(0));
        for a in 0..s.len() {
            for b in 0..n {
                one(a, b);
            }
        }
    }
}

/// registers the vectors to inspect and picks the fault point; keep the returned value alive during the operation
pub fn arm<Tr: ?Sized + Trait, B: Backend, E: Elem>(v0: &AnyVec<Tr, B>, v1: Option<&AnyVec<Tr, B>>, fmax: usize) -> FInsp<Tr, B, E> {
    let k = any_usize();
    assume(k >= 1 && k <= fmax);
    unsafe {
        fault::FAULT_AT = k;
        fault::TICKS = 0;
        fault::FAULTED = false;
    }
    FInsp {
        v0: v0 as *const AnyVec<Tr, B>,
        v1: match v1 {
            Some(v) => v as *const AnyVec<Tr, B>,
            None => core::ptr::null(),
        },
        ph: PhantomData,
    }
}
pub fn engage<'a>(i: &'a (dyn FaultInspect + 'a)) {
    unsafe {
        F_OBJ = Some(core::mem::transmute::<*const (dyn FaultInspect + 'a), *const (dyn FaultInspect + 'static)>(i as *const (dyn FaultInspect + 'a)));
    }
}

pub fn disarm() {
    unsafe {
        fault::FAULT_AT = 0;
    }
}

/// runs `f`; natively a fault panic is caught (anything else is propagated)
pub fn guard<F: FnOnce()>(f: F) {
    #[cfg(kani)]
    f();
    #[cfg(not(kani))]
    {
        let r = std::panic::catch_unwind(std::panic::AssertUnwindSafe(f));
        if let Err(e) = r {
            if e.downcast_ref::<FaultPanic>().is_none() {
                std::panic::resume_unwind(e);
            }
        }
    }
}

#[derive(Copy, Clone, Debug, PartialEq, Eq)]
pub enum Scn {
    Clear,
    TClear,
    DropVec,
    RemoveDrop,
    SwapRemoveDrop,
    PopDrop,
    DrainDrop,
    TDrainDrop,
    SpliceWrapper,
    SpliceRaw,
    TSplice,
}

/// single-vector scenarios: Drop of elements and replacement-iterator `next` are the user code
pub fn fault_h<Tr: ?Sized + Trait, B: Backend, E: Elem + SatisfyTraits<Tr>>(p: crate::c02::P2, scn: Scn, fmax: usize) {
    reset_all();
    reset();
    let (v, m) = build::<Tr, B, E>(p.cap, p.len, 0);
    let len = m.len;
    let mut vbox = core::mem::ManuallyDrop::new(v);
    let vp: *mut AnyVec<Tr, B> = &mut *vbox;
    let v = unsafe { &mut *vp };
    let mut slots: [MaybeUninit<E>; RMAX] = unsafe { MaybeUninit::uninit().assume_init() };
    let sp = slots.as_mut_ptr() as *mut E;
    let s = p.start.get();
    let e = p.end.get();
    assume(s <= e && e <= len);
    let f = p.f.get();
    assume(f <= p.fb && f <= e - s);
    let n = p.r.get();
    assume(n <= 2);
    let is_splice = matches!(scn, Scn::SpliceWrapper | Scn::SpliceRaw | Scn::TSplice);
    if is_splice {
        if !B::RESIZABLE {
            assume(len - (e - s) + n <= v.capacity());
        }
        let _ = fill_slots::<E>(&mut slots, n);
    }
    let finsp = arm::<Tr, B, E>(v, None, fmax);
    engage(&finsp);
    let mut dropped_vec = false;
    guard(|| match scn {
        Scn::Clear => v.clear(),
        Scn::TClear => v.downcast_mut::<E>().unwrap().clear(),
        Scn::DropVec => {
            dropped_vec = true;
            unsafe { core::ptr::drop_in_place(vp) };
        }
        Scn::RemoveDrop => {
            if s < len {
                drop(v.remove(s));
            }
        }
        Scn::SwapRemoveDrop => {
            if s < len {
                drop(v.swap_remove(s));
            }
        }
        Scn::PopDrop => {
            drop(v.pop());
        }
        Scn::DrainDrop => {
            let mut d = v.drain(s..e);
            let mut k = 0;
            while k < p.fb {
                if k < f {
                    drop(d.next_back());
                }
                k += 1;
            }
            drop(d);
        }
        Scn::TDrainDrop => {
            let mut t = v.downcast_mut::<E>().unwrap();
            let mut d = t.drain(s..e);
            let mut k = 0;
            while k < p.fb {
                if k < f {
                    drop(d.next());
                }
                k += 1;
            }
            drop(d);
        }
        Scn::SpliceWrapper => {
            drop(v.splice(s..e, Rep::<E, false> { slots: sp, n, k: 0, delta: 0, ph: PhantomData }));
        }
        Scn::SpliceRaw => {
            drop(v.splice(s..e, Rep::<E, true> { slots: sp, n, k: 0, delta: 0, ph: PhantomData }));
        }
        Scn::TSplice => {
            let mut t = v.downcast_mut::<E>().unwrap();
            drop(t.splice(s..e, RepT::<E> { slots: sp, n, k: 0, delta: 0 }));
        }
    });
    disarm();
    if !dropped_vec {
        let v = unsafe { &mut *vp };
        // after the operation (native: also after a real unwind) the vector is valid, usable, droppable
        check_valid_leaky::<Tr, B, E>(v, &m, 0);
        if B::RESIZABLE || v.len() < v.capacity() {
            v.push(AnyValueWrapper::new(E::make(NEW_ID + 3, 9)));
        }
        check_valid_leaky::<Tr, B, E>(v, &m, 0);
        unsafe { core::ptr::drop_in_place(vp) };
    }
    check_all_gone::<E>(true);
    reached_end();
}

#[derive(Copy, Clone, Debug, PartialEq, Eq)]
pub enum CScn {
    CloneVec,
    PushLazy,
    InsertLazy,
    SpliceLazy,
    LazyDowncast,
}

/// scenarios where element Clone is the user code (two vectors: source `y`, destination `v`)
pub fn fault_clone_h<Tr: ?Sized + Trait + Cloneable, B: Backend, E: Elem + SatisfyTraits<Tr>>(p: crate::c01::P, scn: CScn, fmax: usize) {
    reset_all();
    reset();
    let (mut v, m) = build::<Tr, B, E>(p.cap, p.len, 0);
    let (y, my) = build::<Tr, B, E>(p.cap2, p.len2, E::YBASE);
    let i = p.idx.get();
    assume(i <= m.len);
    let j = p.idx2.get();
    assume(j < my.len);
    if !B::RESIZABLE {
        assume(m.len < v.capacity());
    }
    let finsp = arm::<Tr, B, E>(&v, Some(&y), fmax);
    engage(&finsp);
    let mut keep_clone: Option<AnyVec<Tr, B>> = None;
    guard(|| match scn {
        CScn::CloneVec => {
            keep_clone = Some(y.clone());
        }
        CScn::PushLazy => v.push(y.at(j).lazy_clone()),
        CScn::InsertLazy => v.insert(i, y.at(j).lazy_clone()),
        CScn::SpliceLazy => {
            let r = y.at(j);
            drop(v.splice(i..i, core::iter::once(r.lazy_clone())));
        }
        CScn::LazyDowncast => {
            let r = y.at(j);
            drop(r.lazy_clone().downcast::<E>());
        }
    });
    disarm();
    check_valid_leaky::<Tr, B, E>(&v, &m, if scn == CScn::PushLazy { m.len } else { 0 });
    check_vec::<Tr, B, E>(&y, &my);
    if let Some(c) = keep_clone {
        check_valid_leaky::<Tr, B, E>(&c, &my, 0);
        drop(c);
    }
    drop(v);
    drop(y);
    check_all_gone::<E>(true);
    reached_end();
}

/// a replacement iterator whose len() is off by `delta` in -2..=2 from what it yields
pub fn liar_h<Tr: ?Sized + Trait, B: Backend, E: Elem + SatisfyTraits<Tr>>(p: crate::c02::P2, typed: bool, dl: Dim) {
    reset_all();
    reset();
    let (mut v, m) = build::<Tr, B, E>(p.cap, p.len, 0);
    let len = m.len;
    let s = p.start.get();
    let e = p.end.get();
    assume(s <= e && e <= len);
    let n = p.r.get();
    assume(n <= 2);
    // misreport: dl in 0..=4 stands for len() off by -2..=+2
    let d = dl.get();
    assume(d <= 4);
    let delta = d as isize - 2;
    assume(n as isize + delta >= 0);
    if !B::RESIZABLE {
        // room for what it yields and for what it claims
        assume(len - (e - s) + n <= v.capacity() && len - (e - s) + (n as isize + delta) as usize <= v.capacity());
    }
    let mut slots: [MaybeUninit<E>; RMAX] = unsafe { MaybeUninit::uninit().assume_init() };
    let sp = slots.as_mut_ptr() as *mut E;
    let _ = fill_slots::<E>(&mut slots, n);
    if typed {
        let mut t = v.downcast_mut::<E>().unwrap();
        drop(t.splice(s..e, RepT::<E> { slots: sp, n, k: 0, delta }));
    } else {
        drop(v.splice(s..e, Rep::<E, true> { slots: sp, n, k: 0, delta, ph: PhantomData }));
    }
    check_valid_leaky::<Tr, B, E>(&v, &m, s);
    if delta == 0 {
        vp_assert!(v.len() == len - (e - s) + n, "VP: honest splice produced a wrong length");
    }
    if B::RESIZABLE || v.len() < v.capacity() {
        v.push(AnyValueWrapper::new(E::make(NEW_ID + 3, 9)));
    }
    check_valid_leaky::<Tr, B, E>(&v, &m, s);
    drop(v);
    // items the iterator never handed out stay owned by the harness slots: leaks_ok
    check_all_gone::<E>(true);
    reached_end();
}
