//! placeholder – fault-point inspectors (filled in with the C06 harnesses)
pub fn at_fault(_which: u8) {}
