//! Native replayer: runs one generated harness body on recorded values.
//! usage: replay <harness> <values-file>   (file: one line per kani::any call, comma separated bytes)
//! exit 0: harness body completed (no violation reproduced); exit 3: a `VP:` oracle failed
//! (violation reproduced; message on stdout); exit 4: replay invalid / other panic.
#[cfg(kani)]
fn main() {}

#[cfg(not(kani))]
fn main() {
    use std::panic;
    let args: Vec<String> = std::env::args().collect();
    if args.len() < 3 {
        eprintln!("usage: replay <harness> <values-file>");
        std::process::exit(2);
    }
    let name = &args[1];
    let text = std::fs::read_to_string(&args[2]).expect("values file");
    let mut vals: Vec<Vec<u8>> = Vec::new();
    for line in text.lines() {
        let line = line.trim();
        if line.is_empty() || line.starts_with('#') {
            continue;
        }
        vals.push(line.split(',').filter(|s| !s.trim().is_empty()).map(|s| s.trim().parse::<u8>().unwrap()).collect());
    }
    let f = vpk::gen::TABLE.iter().find(|(n, _)| n == name).map(|(_, f)| *f);
    let f = match f {
        Some(f) => f,
        None => {
            println!("REPLAY-ERROR unknown harness {}", name);
            std::process::exit(2);
        }
    };
    vpk::sym::replay::load(vals);
    panic::set_hook(Box::new(|info| {
        // keep the location of the first VP failure for the report
        let s = info.to_string();
        if s.contains("VP") {
            eprintln!("[replay] {}", s);
        }
    }));
    let r = panic::catch_unwind(f);
    match r {
        Ok(()) => {
            let fails = vpk::sym::replay::failures();
            if !fails.is_empty() {
                println!("REPLAY-RESULT violation reproduced: {} (+{} more)", fails[0], fails.len() - 1);
                std::process::exit(3);
            }
            println!("REPLAY-OK harness completed; underflow={} remaining={}", vpk::sym::replay::underflow(), vpk::sym::replay::remaining());
            std::process::exit(0);
        }
        Err(e) => {
            let msg = vpk::sym::panic_message(&e);
            let fails = vpk::sym::replay::failures();
            if !fails.is_empty() {
                println!("REPLAY-RESULT violation reproduced: {} (+{} more; then panic: {})", fails[0], fails.len() - 1, msg);
                std::process::exit(3);
            }
            if msg.starts_with("VP-REPLAY-INVALID") {
                println!("REPLAY-INVALID {}", msg);
                std::process::exit(4);
            } else if msg.starts_with("VP-STOP") {
                println!("REPLAY-OK path stopped: {}", msg);
                std::process::exit(0);
            } else if msg.starts_with("VP") {
                println!("REPLAY-VIOLATION {}", msg);
                std::process::exit(3);
            } else {
                println!("REPLAY-PANIC {}", msg);
                std::process::exit(5);
            }
        }
    }
}
