// placeholder: /verif/run.py generates the real file (harness instantiations) into a private copy of this crate
pub static TABLE: &[(&str, fn())] = &[];
