//! Backends: uniform construction over the built-in ones, plus `Reloc`, a user-defined
//! resizable backend that moves the storage on *every* capacity change and frees the old
//! block (under CBMC a freed object stays dead for the rest of the trace, so any use of a
//! pointer obtained before the change fails a pointer check).

#[cfg(feature = "alloc")]
use any_vec::mem::Heap;
use any_vec::mem::{Mem, MemBuilder, MemBuilderSizeable, MemResizable, Stack, StackN};
use any_vec::traits::Trait;
use any_vec::{AnyVec, SatisfyTraits};
use core::alloc::Layout;

pub trait Backend: MemBuilder + Clone + 'static {
    const NAME: &'static str;
    const RESIZABLE: bool;
    fn inst() -> Self;
    /// empty vector of `E`; capacity `>= cap` when resizable, the backend's own otherwise
    fn mk<Tr: ?Sized + Trait, E: 'static + SatisfyTraits<Tr>>(cap: usize) -> AnyVec<Tr, Self>;
}

#[cfg(feature = "alloc")]
impl Backend for Heap {
    const NAME: &'static str = "Heap";
    const RESIZABLE: bool = true;
    fn inst() -> Self {
        Heap
    }
    fn mk<Tr: ?Sized + Trait, E: 'static + SatisfyTraits<Tr>>(cap: usize) -> AnyVec<Tr, Self> {
        AnyVec::with_capacity_in::<E>(cap, Heap)
    }
}
impl<const S: usize> Backend for Stack<S> {
    const NAME: &'static str = "Stack";
    const RESIZABLE: bool = false;
    fn inst() -> Self {
        Stack::<S>
    }
    fn mk<Tr: ?Sized + Trait, E: 'static + SatisfyTraits<Tr>>(_cap: usize) -> AnyVec<Tr, Self> {
        AnyVec::new_in::<E>(Stack::<S>)
    }
}
impl<const N: usize, const S: usize> Backend for StackN<N, S> {
    const NAME: &'static str = "StackN";
    const RESIZABLE: bool = false;
    fn inst() -> Self {
        StackN::<N, S>
    }
    fn mk<Tr: ?Sized + Trait, E: 'static + SatisfyTraits<Tr>>(_cap: usize) -> AnyVec<Tr, Self> {
        AnyVec::new_in::<E>(StackN::<N, S>)
    }
}

pub static mut RELOC_BUILDS: usize = 0;
pub static mut RELOC_RESIZES: usize = 0;
pub static mut RELOC_RELEASES: usize = 0;
pub static mut RELOC_LIVE_BLOCKS: isize = 0;
pub static mut RELOC_LAST_LAYOUT: (usize, usize) = (0, 0);
/// when set, releasing the storage while any tracked element is still alive is a violation
pub static mut RELOC_EXPECT_EMPTY_ON_RELEASE: bool = false;

pub fn reloc_reset() {
    unsafe {
        RELOC_BUILDS = 0;
        RELOC_RESIZES = 0;
        RELOC_RELEASES = 0;
        RELOC_LIVE_BLOCKS = 0;
        RELOC_LAST_LAYOUT = (0, 0);
        RELOC_EXPECT_EMPTY_ON_RELEASE = false;
    }
}

#[derive(Clone, Default)]
pub struct Reloc;
pub struct RelocMem {
    ptr: *mut u8,
    size: usize,
    layout: Layout,
}
impl RelocMem {
    fn bytes(&self, n: usize) -> usize {
        self.layout.size() * n
    }
}
impl MemBuilder for Reloc {
    type Mem = RelocMem;
    fn build(&mut self, element_layout: Layout) -> RelocMem {
        unsafe {
            RELOC_BUILDS += 1;
            RELOC_LAST_LAYOUT = (element_layout.size(), element_layout.align());
        }
        RelocMem { ptr: element_layout.align() as *mut u8, size: 0, layout: element_layout }
    }
}
impl MemBuilderSizeable for Reloc {
    fn build_with_size(&mut self, element_layout: Layout, capacity: usize) -> RelocMem {
        let mut m = self.build(element_layout);
        m.resize(capacity);
        m
    }
}
impl Mem for RelocMem {
    fn as_ptr(&self) -> *const u8 {
        self.ptr
    }
    fn as_mut_ptr(&mut self) -> *mut u8 {
        self.ptr
    }
    fn element_layout(&self) -> Layout {
        self.layout
    }
    fn size(&self) -> usize {
        self.size
    }
    fn expand(&mut self, additional: usize) {
        let req = self.size + additional;
        let dbl = self.size * 2;
        self.resize(if dbl > req { dbl } else { req });
    }
}
impl MemResizable for RelocMem {
    fn resize(&mut self, new_size: usize) {
        if new_size == self.size {
            return;
        }
        unsafe {
            RELOC_RESIZES += 1;
            let old_bytes = self.bytes(self.size);
            let new_bytes = self.bytes(new_size);
            let new_ptr = if new_bytes == 0 {
                self.layout.align() as *mut u8
            } else {
                let p = std::alloc::alloc(Layout::from_size_align_unchecked(new_bytes, self.layout.align()));
                RELOC_LIVE_BLOCKS += 1;
                p
            };
            let keep = if old_bytes < new_bytes { old_bytes } else { new_bytes };
            if keep > 0 {
                core::ptr::copy_nonoverlapping(self.ptr, new_ptr, keep);
            }
            if old_bytes != 0 {
                std::alloc::dealloc(self.ptr, Layout::from_size_align_unchecked(old_bytes, self.layout.align()));
                RELOC_LIVE_BLOCKS -= 1;
            }
            self.ptr = new_ptr;
            self.size = new_size;
        }
    }
}
impl Drop for RelocMem {
    fn drop(&mut self) {
        unsafe {
            RELOC_RELEASES += 1;
            if RELOC_EXPECT_EMPTY_ON_RELEASE {
                let live = crate::elems::TOTAL_LIVE;
                crate::vp_assert!(live == 0, "VP: storage released while elements of the vector are still alive");
            }
        }
        self.resize(0);
    }
}
impl Backend for Reloc {
    const NAME: &'static str = "Reloc";
    const RESIZABLE: bool = true;
    fn inst() -> Self {
        Reloc
    }
    fn mk<Tr: ?Sized + Trait, E: 'static + SatisfyTraits<Tr>>(cap: usize) -> AnyVec<Tr, Self> {
        AnyVec::with_capacity_in::<E>(cap, Reloc)
    }
}


/// `Reloc` that hands out storage for `K` elements already at `build()` (a backend may do that); relocates on every
/// later capacity change like `Reloc`.
#[derive(Clone, Default)]
pub struct RelocK<const K: usize>;
impl<const K: usize> MemBuilder for RelocK<K> {
    type Mem = RelocMem;
    fn build(&mut self, element_layout: Layout) -> RelocMem {
        let mut m = Reloc.build(element_layout);
        m.resize(K);
        m
    }
}
impl<const K: usize> MemBuilderSizeable for RelocK<K> {
    fn build_with_size(&mut self, element_layout: Layout, capacity: usize) -> RelocMem {
        let mut m = Reloc.build(element_layout);
        m.resize(if capacity > K { capacity } else { K });
        m
    }
}
impl<const K: usize> Backend for RelocK<K> {
    const NAME: &'static str = "RelocK";
    const RESIZABLE: bool = true;
    fn inst() -> Self {
        RelocK::<K>
    }
    fn mk<Tr: ?Sized + Trait, E: 'static + SatisfyTraits<Tr>>(cap: usize) -> AnyVec<Tr, Self> {
        AnyVec::with_capacity_in::<E>(cap, RelocK::<K>)
    }
}
