//! C10 – capacity management; C18 – heap layouts (logging allocator stubs); C17 – raw parts.

use crate::backends::Backend;
use crate::elems::{self, Elem};
use crate::model::*;
use crate::state::*;
use crate::sym::*;
use crate::vp_assert;
use crate::vpk_assert;
use any_vec::any_value::*;
use any_vec::mem::{Empty, Heap, MemBuilder};
use any_vec::traits::{Cloneable, Trait};
use any_vec::{AnyVec, RawParts, SatisfyTraits};
use core::alloc::Layout;
use core::any::TypeId;
use core::mem::{align_of, size_of};

// ------------------------------------------------------------------ logging allocator
pub const NBLK: usize = 4;
#[derive(Copy, Clone)]
pub struct Blk {
    pub ptr: usize,
    pub size: usize,
    pub align: usize,
    pub live: bool,
}
pub static mut BLKS: [Blk; NBLK] = [Blk { ptr: 0, size: 0, align: 0, live: false }; NBLK];
pub static mut A_ALLOCS: usize = 0;
pub static mut A_REALLOCS: usize = 0;
pub static mut A_DEALLOCS: usize = 0;
pub static mut A_LIVE: isize = 0;
/// requests above this size end the path after the validity checks (nothing is allocated)
pub const A_MAX: usize = 1 << 12;
pub static mut STUBS_ON: bool = false;

pub fn alloc_reset() {
    unsafe {
        BLKS = [Blk { ptr: 0, size: 0, align: 0, live: false }; NBLK];
        A_ALLOCS = 0;
        A_REALLOCS = 0;
        A_DEALLOCS = 0;
        A_LIVE = 0;
    }
}
pub fn alloc_events() -> usize {
    unsafe { A_ALLOCS + A_REALLOCS + A_DEALLOCS }
}
pub fn live_blocks() -> isize {
    unsafe { A_LIVE }
}

fn valid_request(size: usize, align: usize) {
    vpk_assert!(size != 0, "VP[K]: zero-sized request reached the allocator");
    vpk_assert!(align.is_power_of_two(), "VP[K]: request with a non power-of-two alignment reached the allocator");
    vpk_assert!(size <= (isize::MAX as usize) - (align - 1), "VP[K]: invalid layout (size overflows isize when rounded up) reached the allocator");
}

fn record(ptr: *mut u8, size: usize, align: usize) {
    unsafe {
        let mut k = 0;
        let mut done = false;
        while k < NBLK {
            if !done && !BLKS[k].live {
                BLKS[k] = Blk { ptr: ptr as usize, size, align, live: true };
                done = true;
            }
            k += 1;
        }
        vpk_assert!(done, "VP[K]: more simultaneously live heap blocks than the harness allows");
        A_LIVE += 1;
    }
}

fn find_and_release(ptr: *mut u8, size: usize, align: usize) {
    unsafe {
        let mut k = 0;
        let mut found = false;
        while k < NBLK {
            if !found && BLKS[k].live && BLKS[k].ptr == ptr as usize {
                found = true;
                vpk_assert!(BLKS[k].size == size, "VP[K]: realloc/dealloc presents a different size than the block was allocated with");
                vpk_assert!(BLKS[k].align == align, "VP[K]: realloc/dealloc presents a different alignment than the block was allocated with");
                BLKS[k].live = false;
            }
            k += 1;
        }
        vpk_assert!(found, "VP[K]: realloc/dealloc of a block that is not live (double free or foreign pointer)");
        A_LIVE -= 1;
    }
}

#[cfg(kani)]
pub unsafe fn alloc_stub(layout: Layout) -> *mut u8 {
    use std::alloc::GlobalAlloc;
    A_ALLOCS += 1;
    valid_request(layout.size(), layout.align());
    if layout.size() > A_MAX {
        stop_path("allocation larger than the harness bound: validity checked, not performed");
    }
    let p = std::alloc::System.alloc(layout);
    kani::assume(!p.is_null());
    record(p, layout.size(), layout.align());
    p
}
#[cfg(kani)]
pub unsafe fn dealloc_stub(ptr: *mut u8, layout: Layout) {
    use std::alloc::GlobalAlloc;
    A_DEALLOCS += 1;
    find_and_release(ptr, layout.size(), layout.align());
    std::alloc::System.dealloc(ptr, layout)
}
#[cfg(kani)]
pub unsafe fn realloc_stub(ptr: *mut u8, layout: Layout, new_size: usize) -> *mut u8 {
    use std::alloc::GlobalAlloc;
    A_REALLOCS += 1;
    valid_request(new_size, layout.align());
    find_and_release(ptr, layout.size(), layout.align());
    if new_size > A_MAX {
        stop_path("reallocation larger than the harness bound: validity checked, not performed");
    }
    // always relocate
    let np = std::alloc::System.alloc(Layout::from_size_align_unchecked(new_size, layout.align()));
    kani::assume(!np.is_null());
    let keep = if layout.size() < new_size { layout.size() } else { new_size };
    core::ptr::copy_nonoverlapping(ptr, np, keep);
    std::alloc::System.dealloc(ptr, layout);
    record(np, new_size, layout.align());
    np
}

/// the heap state must be: no block if `cap * size == 0`, else exactly one block of that size, aligned for `E`
pub fn check_heap_state<E>(cap: usize) {
    unsafe {
        let want = cap * size_of::<E>();
        if want == 0 {
            vpk_assert!(A_LIVE == 0, "VP[K]: heap vector owns a block although capacity x size is zero");
        } else {
            vpk_assert!(A_LIVE == 1, "VP[K]: heap vector must own exactly one block");
            let mut k = 0;
            while k < NBLK {
                if BLKS[k].live {
                    vpk_assert!(BLKS[k].size == want, "VP[K]: heap block size differs from capacity x element size");
                    vpk_assert!(BLKS[k].align == align_of::<E>(), "VP[K]: heap block alignment differs from the element alignment");
                }
                k += 1;
            }
        }
    }
}

// ------------------------------------------------------------------ C10 / C18
#[derive(Copy, Clone, Debug, PartialEq, Eq)]
pub enum CapOp {
    Reserve,
    ReserveExact,
    ShrinkToFit,
    ShrinkTo,
    PushFull,
    TReserve,
    TShrinkTo,
}

pub trait Resizable: Backend {
    /// capacity-change events so far (allocator stub events for Heap, resize hook for Reloc)
    fn events() -> usize;
    const IS_HEAP: bool;
}
impl Resizable for Heap {
    fn events() -> usize {
        alloc_events()
    }
    const IS_HEAP: bool = true;
}
impl Resizable for crate::backends::Reloc {
    fn events() -> usize {
        unsafe { crate::backends::RELOC_RESIZES }
    }
    const IS_HEAP: bool = false;
}

/// one capacity call from an arbitrary (len, capacity) state; `heap_stubs`: the logging allocator is stubbed in
pub fn cap_h<Tr: ?Sized + Trait, B: Resizable, E: Elem + SatisfyTraits<Tr>>(p: crate::c01::P, op: CapOp, heap_stubs: bool)
where
    B::Mem: any_vec::mem::MemResizable,
{
    reset_all();
    alloc_reset();
    let (mut v, mut m) = build::<Tr, B, E>(p.cap, p.len, 0);
    let len = m.len;
    let c0 = v.capacity();
    if heap_stubs && B::IS_HEAP {
        check_heap_state::<E>(c0);
    }
    let base0 = v.downcast_ref::<E>().unwrap().as_ptr() as usize;
    let ev0 = B::events();
    let n = p.idx.get(); // the argument: 0..=bound+2
    match op {
        CapOp::Reserve | CapOp::TReserve | CapOp::ReserveExact => {
            match op {
                CapOp::Reserve => v.reserve(n),
                CapOp::TReserve => v.downcast_mut::<E>().unwrap().reserve(n),
                _ => v.reserve_exact(n),
            }
            vp_assert!(v.capacity() >= len + n, "VP: reserve left capacity below len + additional");
            if c0 >= len + n {
                vp_assert!(v.capacity() == c0, "VP: reserve changed capacity although it already sufficed");
                vpk_assert!(B::events() == ev0, "VP[K]: reserve reallocated although capacity already sufficed");
                vp_assert!(v.downcast_ref::<E>().unwrap().as_ptr() as usize == base0, "VP: reserve moved the storage although capacity already sufficed");
            } else if op != CapOp::ReserveExact {
                vp_assert!(v.capacity() >= 2 * c0, "VP: growth through reserve must at least double the capacity");
            }
        }
        CapOp::ShrinkToFit => {
            v.shrink_to_fit();
            vp_assert!(v.capacity() <= c0, "VP: shrink_to_fit increased capacity");
            vp_assert!(v.capacity() >= len, "VP: shrink_to_fit went below len");
            if B::IS_HEAP {
                vp_assert!(v.capacity() == len, "VP: shrink_to_fit on the heap backend must end at exactly len");
            }
        }
        CapOp::ShrinkTo | CapOp::TShrinkTo => {
            if op == CapOp::ShrinkTo {
                v.shrink_to(n);
            } else {
                v.downcast_mut::<E>().unwrap().shrink_to(n);
            }
            let bound = if len > n { len } else { n };
            vp_assert!(v.capacity() <= c0, "VP: shrink_to increased capacity");
            vp_assert!(v.capacity() >= len, "VP: shrink_to went below len");
            vp_assert!(v.capacity() >= if bound < c0 { bound } else { c0 }, "VP: shrink_to went below max(len, min_capacity)");
            if B::IS_HEAP {
                vp_assert!(v.capacity() == if bound < c0 { bound } else { c0 }, "VP: shrink_to on the heap backend must end at min(old capacity, max(len, min_capacity))");
            }
            if bound >= c0 {
                vpk_assert!(B::events() == ev0, "VP[K]: shrink_to reallocated although nothing could be released");
            }
        }
        CapOp::PushFull => {
            assume(len == c0);
            let tag = any_u8();
            v.push(AnyValueWrapper::new(E::make(NEW_ID, tag)));
            m.push(NEW_ID, E::norm(tag));
            vp_assert!(v.capacity() >= len + 1, "VP: push at full capacity did not grow");
            if c0 >= 1 {
                vp_assert!(v.capacity() >= 2 * c0, "VP: growth through push must at least double the capacity (amortisation)");
            }
        }
    }
    vp_assert!(v.len() <= v.capacity(), "VP: len exceeds capacity");
    check_vec::<Tr, B, E>(&v, &m);
    if heap_stubs && B::IS_HEAP {
        check_heap_state::<E>(v.capacity());
    }
    drop(v);
    if heap_stubs && B::IS_HEAP {
        vpk_assert!(live_blocks() == 0, "VP[K]: heap memory leaked after the vector was dropped");
    }
    check_all_gone::<E>(false);
    reached_end();
}

#[derive(Copy, Clone, Debug, PartialEq, Eq)]
pub enum HugeOp {
    WithCapacity,
    Reserve,
    ReserveExact,
}

/// capacity requests over the whole usize range: each either panics or presents a valid layout
/// (validity is asserted inside the allocator stubs; nothing above A_MAX bytes is really allocated)
pub fn huge_h<Tr: ?Sized + Trait, E: Elem + SatisfyTraits<Tr>>(p: crate::c01::P, op: HugeOp) {
    reset_all();
    alloc_reset();
    let n = any_usize();
    match op {
        HugeOp::WithCapacity => {
            let v: AnyVec<Tr, Heap> = AnyVec::with_capacity::<E>(n);
            vp_assert!(v.capacity() >= n, "VP: with_capacity gave less than requested");
            check_heap_state::<E>(v.capacity());
            drop(v);
        }
        HugeOp::Reserve | HugeOp::ReserveExact => {
            let (mut v, m) = build::<Tr, Heap, E>(p.cap, p.len, 0);
            if op == HugeOp::Reserve {
                v.reserve(n);
            } else {
                v.reserve_exact(n);
            }
            vp_assert!(v.capacity() >= m.len && v.capacity() - m.len >= n, "VP: reserve returned normally with capacity below len + additional");
            check_heap_state::<E>(v.capacity());
            check_vec::<Tr, Heap, E>(&v, &m);
            drop(v);
        }
    }
    vpk_assert!(live_blocks() == 0, "VP[K]: heap memory leaked after the vector was dropped");
    reached_end();
}

/// a concrete sequence of capacity operations / pushes on the heap (enumerated by the driver; payloads
/// symbolic): every realloc / dealloc presents the layout of the block it refers to, the live block always
/// matches capacity x size, and dropping returns all memory
pub fn heap_seq_h<Tr: ?Sized + Trait, E: Elem + SatisfyTraits<Tr>>(p: crate::c01::P, ops: [(u8, usize); 3], nops: usize) {
    reset_all();
    alloc_reset();
    let (mut v, mut m) = build::<Tr, Heap, E>(p.cap, p.len, 0);
    check_heap_state::<E>(v.capacity());
    let mut step = 0;
    while step < nops {
        let (which, n) = ops[step];
        match which {
            0 => v.reserve(n),
            1 => v.reserve_exact(n),
            2 => v.shrink_to_fit(),
            3 => v.shrink_to(n),
            4 => {
                let tag = any_u8();
                v.push(AnyValueWrapper::new(E::make(NEW_ID + step as u8, tag)));
                m.push(NEW_ID + step as u8, E::norm(tag));
            }
            _ => {
                if m.len > 0 {
                    drop(v.pop());
                    let _ = m.pop();
                }
            }
        }
        check_heap_state::<E>(v.capacity());
        vp_assert!(v.len() <= v.capacity(), "VP: len exceeds capacity");
        step += 1;
    }
    check_vec::<Tr, Heap, E>(&v, &m);
    drop(v);
    vpk_assert!(live_blocks() == 0, "VP[K]: heap memory leaked after the vector was dropped");
    check_all_gone::<E>(false);
    reached_end();
}

// ------------------------------------------------------------------ C17
impl Backend for Empty {
    const NAME: &'static str = "Empty";
    const RESIZABLE: bool = false;
    fn inst() -> Self {
        Empty
    }
    fn mk<Tr: ?Sized + Trait, E: 'static + SatisfyTraits<Tr>>(_cap: usize) -> AnyVec<Tr, Self> {
        AnyVec::new_in::<E>(Empty)
    }
}

#[derive(Copy, Clone, Debug, PartialEq, Eq)]
pub enum RpAfter {
    Nothing,
    Push,
    Remove,
    Pop,
    Clear,
}

pub fn rawparts_heap<Tr: ?Sized + Trait, E: Elem + SatisfyTraits<Tr>>(p: crate::c01::P, after: RpAfter, twice: bool) {
    reset_all();
    alloc_reset();
    let (v, mut m) = build::<Tr, Heap, E>(p.cap, p.len, 0);
    let (len, cap) = (v.len(), v.capacity());
    let base = v.downcast_ref::<E>().unwrap().as_ptr() as usize;
    let dropf = v.element_drop();
    let ev0 = alloc_events();
    let d0 = elems::total_drops();
    let rp: RawParts<Heap> = v.into_raw_parts();
    vpk_assert!(alloc_events() == ev0, "VP[K]: into_raw_parts touched the allocator");
    vp_assert!(elems::total_drops() == d0, "VP: into_raw_parts destroyed elements");
    vp_assert!(rp.len == len, "VP: RawParts.len is not the vector's length");
    vp_assert!(rp.capacity == cap, "VP: RawParts.capacity is not the vector's capacity");
    vp_assert!(rp.element_layout == Layout::new::<E>(), "VP: RawParts.element_layout is not the element layout");
    vp_assert!(rp.element_typeid == TypeId::of::<E>(), "VP: RawParts.element_typeid is not the element type");
    vp_assert!(rp.element_drop.is_some() == core::mem::needs_drop::<E>(), "VP: RawParts.element_drop presence differs from needs_drop");
    vp_assert!(rp.element_drop.map(|f| f as usize) == dropf.map(|f| f as usize), "VP: RawParts.element_drop is not the vector's drop function");
    vp_assert!(cap * size_of::<E>() == 0 || rp.mem_handle.as_ptr() as usize == base, "VP: RawParts.mem_handle is not the storage pointer");
    let rc = rp.clone();
    vp_assert!(rc.len == rp.len, "VP: RawParts::clone reports a different len");
    vp_assert!(rc.capacity == rp.capacity, "VP: RawParts::clone reports a different capacity");
    vp_assert!(rc.element_layout == rp.element_layout && rc.element_typeid == rp.element_typeid, "VP: RawParts::clone reports a different layout / type id");
    vp_assert!(rc.mem_handle == rp.mem_handle, "VP: RawParts::clone reports a different memory handle");
    vp_assert!(rc.element_drop.map(|f| f as usize) == rp.element_drop.map(|f| f as usize), "VP: RawParts::clone reports a different drop function");
    vp_assert!(rc.element_clone as usize == rp.element_clone as usize, "VP: RawParts::clone reports a different clone function");
    let mut v2: AnyVec<Tr, Heap> = unsafe { AnyVec::from_raw_parts(if twice { rc } else { rp }) };
    if twice {
        let again = v2.into_raw_parts();
        vp_assert!(again.len == len && again.capacity == cap, "VP: second round trip changed len / capacity");
        v2 = unsafe { AnyVec::from_raw_parts(again) };
    }
    vpk_assert!(alloc_events() == ev0, "VP[K]: raw parts round trip touched the allocator");
    vp_assert!(v2.capacity() == cap, "VP: rebuilt vector has a different capacity");
    vp_assert!(v2.element_typeid() == TypeId::of::<E>() && v2.element_layout() == Layout::new::<E>(), "VP: rebuilt vector has different element type / layout");
    check_vec::<Tr, Heap, E>(&v2, &m);
    check_heap_state::<E>(v2.capacity());
    let idx = p.idx.get();
    match after {
        RpAfter::Nothing => {}
        RpAfter::Push => {
            let tag = any_u8();
            v2.push(AnyValueWrapper::new(E::make(NEW_ID, tag)));
            m.push(NEW_ID, E::norm(tag));
        }
        RpAfter::Remove => {
            assume(idx < m.len);
            drop(v2.remove(idx));
            let _ = m.remove(idx);
        }
        RpAfter::Pop => {
            assume(m.len > 0);
            let h = v2.pop().unwrap();
            let (id, tag) = m.pop().unwrap();
            check_elem::<E>(&h.downcast::<E>().unwrap(), id, tag);
        }
        RpAfter::Clear => {
            v2.clear();
            m.clear();
        }
    }
    check_vec::<Tr, Heap, E>(&v2, &m);
    check_heap_state::<E>(v2.capacity());
    drop(v2);
    vpk_assert!(live_blocks() == 0, "VP[K]: heap memory leaked / not released exactly once after the round trip");
    check_all_gone::<E>(false);
    reached_end();
}

/// clone function survives the round trip (Cloneable constraint sets)
pub fn rawparts_clone<Tr: ?Sized + Trait + Cloneable, E: Elem + SatisfyTraits<Tr>>(p: crate::c01::P) {
    reset_all();
    alloc_reset();
    let (v, m) = build::<Tr, Heap, E>(p.cap, p.len, 0);
    let clonef = v.element_clone() as usize;
    let rp = v.into_raw_parts();
    vp_assert!(rp.element_clone as usize == clonef, "VP: RawParts.element_clone is not the vector's clone function");
    let v2: AnyVec<Tr, Heap> = unsafe { AnyVec::from_raw_parts(rp) };
    let c = v2.clone();
    vp_assert!(elems::total_clones() == m.len, "VP: clone after a raw parts round trip must clone each element once");
    vp_assert!(c.len() == m.len, "VP: clone after a raw parts round trip has a different length");
    check_vec::<Tr, Heap, E>(&v2, &m);
    drop(c);
    drop(v2);
    check_all_gone::<E>(false);
    reached_end();
}

pub fn rawparts_empty<Tr: ?Sized + Trait, E: Elem + SatisfyTraits<Tr>>() {
    reset_all();
    alloc_reset();
    let v: AnyVec<Tr, Empty> = AnyVec::new_in::<E>(Empty);
    vp_assert!(v.len() == 0 && v.capacity() == 0, "VP: Empty-backed vector must have zero length and capacity");
    let dropf = v.element_drop();
    let rp = v.into_raw_parts();
    vp_assert!(rp.len == 0 && rp.capacity == 0, "VP: RawParts of an Empty-backed vector must report len 0 / capacity 0");
    vp_assert!(rp.element_layout == Layout::new::<E>() && rp.element_typeid == TypeId::of::<E>(), "VP: RawParts of an Empty-backed vector reports wrong layout / type");
    vp_assert!(rp.element_drop.map(|f| f as usize) == dropf.map(|f| f as usize), "VP: RawParts.element_drop is not the vector's drop function");
    let rc = rp.clone();
    vp_assert!(rc.len == 0 && rc.capacity == 0 && rc.element_layout == rp.element_layout && rc.element_typeid == rp.element_typeid, "VP: RawParts::clone of an Empty-backed vector differs");
    let v2: AnyVec<Tr, Empty> = unsafe { AnyVec::from_raw_parts(rc) };
    vp_assert!(v2.len() == 0 && v2.capacity() == 0 && v2.is_empty(), "VP: rebuilt Empty-backed vector is not empty");
    vp_assert!(v2.element_typeid() == TypeId::of::<E>() && v2.element_layout() == Layout::new::<E>(), "VP: rebuilt Empty-backed vector has wrong type / layout");
    vp_assert!(v2.get(0).is_none(), "VP: get on an Empty-backed vector returned an element");
    vp_assert!(v2.downcast_ref::<E>().unwrap().as_slice().len() == 0, "VP: typed slice of an Empty-backed vector is not empty");
    // rebuilding into a heap-backed clone_empty_in works and accepts values
    let mut hv = v2.clone_empty_in(Heap);
    hv.push(AnyValueWrapper::new(E::make(NEW_ID, 1)));
    let mut mh = Model::new();
    mh.push(NEW_ID, E::norm(1));
    check_vec::<Tr, Heap, E>(&hv, &mh);
    drop(hv);
    drop(v2);
    vpk_assert!(alloc_events() == 0 || live_blocks() == 0, "VP[K]: memory leaked");
    check_all_gone::<E>(false);
    reached_end();
}


/// C05 lifecycle on the user-defined relocating backend: storage requested once per vector with the
/// element type's layout, released exactly once, after the remaining elements were destroyed
pub fn reloc_life_h<Tr: ?Sized + Trait + Cloneable, E: Elem + SatisfyTraits<Tr>>(p: crate::c01::P) {
    use crate::backends::*;
    reset_all();
    let (mut v, mut m) = build::<Tr, Reloc, E>(p.cap, p.len, 0);
    unsafe {
        vp_assert!(RELOC_BUILDS == 1, "VP: storage must be requested exactly once per vector");
        vp_assert!(RELOC_LAST_LAYOUT == (size_of::<E>(), align_of::<E>()), "VP: storage requested with a layout that is not the element type's");
    }
    // growth relocates; elements survive
    let tag = any_u8();
    v.push(AnyValueWrapper::new(E::make(NEW_ID, tag)));
    m.push(NEW_ID, E::norm(tag));
    check_vec::<Tr, Reloc, E>(&v, &m);
    let ce = v.clone_empty();
    unsafe {
        vp_assert!(RELOC_BUILDS == 2, "VP: clone_empty must request storage exactly once");
        vp_assert!(RELOC_LAST_LAYOUT == (size_of::<E>(), align_of::<E>()), "VP: clone_empty requested a different layout");
    }
    drop(ce);
    unsafe {
        vp_assert!(RELOC_RELEASES == 1, "VP: dropping a vector must release its storage exactly once");
    }
    let c = v.clone();
    unsafe {
        vp_assert!(RELOC_BUILDS == 3, "VP: clone must request storage exactly once");
    }
    drop(c);
    unsafe {
        vp_assert!(RELOC_RELEASES == 2, "VP: dropping a clone must release its storage exactly once");
        RELOC_EXPECT_EMPTY_ON_RELEASE = true;
    }
    drop(v);
    unsafe {
        vp_assert!(RELOC_RELEASES == 3, "VP: dropping a vector must release its storage exactly once");
        vp_assert!(RELOC_LIVE_BLOCKS == 0, "VP: backend blocks leaked");
    }
    check_all_gone::<E>(false);
    reached_end();
}
