//! Value source: `kani::any()` under the solver, recorded values under native replay.
//!
//! Every symbolic value of every harness is drawn through these wrappers, so the byte
//! vectors printed by Kani's concrete playback (one per `kani::any` call, in execution
//! order) can be fed back to the *same* harness body compiled natively.

#[cfg(not(kani))]
pub mod replay {
    use std::cell::RefCell;
    use std::collections::VecDeque;
    thread_local! {
        pub static QUEUE: RefCell<VecDeque<Vec<u8>>> = RefCell::new(VecDeque::new());
        pub static UNDERFLOW: RefCell<usize> = RefCell::new(0);
        pub static FAILS: RefCell<Vec<&'static str>> = RefCell::new(Vec::new());
    }
    pub fn failures() -> Vec<&'static str> {
        FAILS.with(|f| f.borrow().clone())
    }
    pub fn load(vals: Vec<Vec<u8>>) {
        QUEUE.with(|q| *q.borrow_mut() = vals.into());
        UNDERFLOW.with(|u| *u.borrow_mut() = 0);
    }
    pub fn pop(n: usize) -> u64 {
        let v = QUEUE.with(|q| q.borrow_mut().pop_front());
        match v {
            Some(b) => {
                let mut x = 0u64;
                for (i, byte) in b.iter().take(n.min(8)).enumerate() {
                    x |= (*byte as u64) << (8 * i);
                }
                x
            }
            None => {
                UNDERFLOW.with(|u| *u.borrow_mut() += 1);
                0
            }
        }
    }
    pub fn underflow() -> usize {
        UNDERFLOW.with(|u| *u.borrow())
    }
    pub fn remaining() -> usize {
        QUEUE.with(|q| q.borrow().len())
    }
}

/// Harness oracle. Kani: a checked assertion (description starts with `VP:`). Native replay: the
/// failure is printed and recorded at once and execution continues (no panic: oracles also run
/// inside destructors, where a panic would abort the process and lose the report).
#[macro_export]
macro_rules! vp_assert {
    ($c:expr, $m:literal) => {{
        #[cfg(kani)]
        {
            assert!($c, $m);
        }
        #[cfg(not(kani))]
        {
            if !($c) {
                $crate::sym::record_failure($m);
            }
        }
    }};
}

/// Oracle that only exists under the solver (it reads state kept by Kani stubs, e.g. the logging
/// allocator): checked by Kani, skipped natively. Messages start with `VP[K]:`.
#[macro_export]
macro_rules! vpk_assert {
    ($c:expr, $m:literal) => {{
        #[cfg(kani)]
        {
            assert!($c, $m);
        }
    }};
}

#[cfg(not(kani))]
pub fn record_failure(m: &'static str) {
    use std::io::Write;
    replay::FAILS.with(|f| f.borrow_mut().push(m));
    println!("REPLAY-VIOLATION {}", m);
    let _ = std::io::stdout().flush();
}

#[inline(always)]
pub fn any_u8() -> u8 {
    #[cfg(kani)]
    {
        kani::any()
    }
    #[cfg(not(kani))]
    {
        replay::pop(1) as u8
    }
}

#[inline(always)]
pub fn any_usize() -> usize {
    #[cfg(kani)]
    {
        kani::any()
    }
    #[cfg(not(kani))]
    {
        replay::pop(8) as usize
    }
}

#[inline(always)]
pub fn any_bool() -> bool {
    #[cfg(kani)]
    {
        kani::any()
    }
    #[cfg(not(kani))]
    {
        (replay::pop(1) & 1) != 0
    }
}

/// `kani::assume`; natively an assumption that does not hold means the recorded values do
/// not belong to this harness (replay invalid).
#[inline(always)]
pub fn assume(c: bool) {
    #[cfg(kani)]
    kani::assume(c);
    #[cfg(not(kani))]
    if !c {
        panic!("VP-REPLAY-INVALID: assumption violated");
    }
}

/// End of a path that is not part of the claim (Kani: assume(false); native: unwinding panic).
#[inline(always)]
pub fn stop_path(why: &'static str) -> ! {
    #[cfg(kani)]
    {
        let _ = why;
        kani::assume(false);
        loop {}
    }
    #[cfg(not(kani))]
    {
        std::panic::panic_any(StopPath(why));
    }
}
pub struct StopPath(pub &'static str);

/// Vacuity witness: must be SATISFIED for the harness result to count.
#[inline(always)]
pub fn reached_end() {
    #[cfg(kani)]
    kani::cover!(true, "REACHED-END");
}

#[inline(always)]
pub fn cover(c: bool, _what: &'static str) {
    #[cfg(kani)]
    kani::cover!(c, "COVER");
    let _ = c;
}

/// A dimension of a harness: decided by the solver within `0..=max`, or fixed by the driver.
#[derive(Copy, Clone, Debug)]
pub enum Dim {
    Sym(usize),
    Fix(usize),
}
impl Dim {
    #[inline(always)]
    pub fn get(self) -> usize {
        match self {
            Dim::Fix(v) => v,
            Dim::Sym(max) => {
                let x = any_usize();
                assume(x <= max);
                x
            }
        }
    }
    pub fn max(self) -> usize {
        match self {
            Dim::Fix(v) => v,
            Dim::Sym(m) => m,
        }
    }
}

/// Calls `f`, which must end in a panic whose message contains `what`.
/// Kani: the panic ends the path (the driver accepts exactly the declared panic check as
/// expected); returning normally is a violation. Native: the panic is caught and matched.
pub fn must_panic<F: FnOnce()>(what: &'static str, f: F) {
    #[cfg(kani)]
    {
        let _ = what;
        f();
        assert!(false, "VP: rejected call returned normally");
    }
    #[cfg(not(kani))]
    {
        let r = std::panic::catch_unwind(std::panic::AssertUnwindSafe(f));
        match r {
            Ok(()) => record_failure("VP: rejected call returned normally"),
            Err(e) => {
                let msg = panic_message(&e);
                if msg.starts_with("VP") {
                    std::panic::resume_unwind(e);
                }
                if !msg.contains(what) {
                    println!("REPLAY-NOTE expected panic `{}` got `{}`", what, msg);
                    record_failure("VP: wrong panic message for a rejected call");
                }
            }
        }
    }
}

#[cfg(not(kani))]
pub fn panic_message(e: &Box<dyn std::any::Any + Send>) -> String {
    if let Some(s) = e.downcast_ref::<&'static str>() {
        s.to_string()
    } else if let Some(s) = e.downcast_ref::<String>() {
        s.clone()
    } else if let Some(s) = e.downcast_ref::<StopPath>() {
        format!("VP-STOP: {}", s.0)
    } else {
        "<non-string panic>".to_string()
    }
}
