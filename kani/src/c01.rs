//! C01 – element-wise operations vs the Vec model: one operation instance from an arbitrary
//! valid state, for every value-source and value-sink kind, erased and typed paths.

use crate::backends::Backend;
use crate::elems::{self, Elem};
use crate::model::*;
use crate::state::*;
use crate::sym::*;
use crate::vp_assert;
use any_vec::any_value::*;
use any_vec::traits::{Cloneable, Trait};
use any_vec::{AnyVec, SatisfyTraits};
use core::any::TypeId;
use core::mem::size_of;
use core::ptr::NonNull;

/// harness dimensions; `Sym(max)` = decided by the solver, `Fix(v)` = enumerated by the driver
#[derive(Copy, Clone, Debug)]
pub struct P {
    pub cap: Dim,
    pub len: Dim,
    pub idx: Dim,
    pub cap2: Dim,
    pub len2: Dim,
    pub idx2: Dim,
}

#[derive(Copy, Clone, Debug, PartialEq, Eq)]
pub enum Src {
    Wrapper,
    Raw,
    Typeless,
    Sizeless,
    YRemove,
    YSwapRemove,
    YPop,
    YDrain,
}

#[derive(Copy, Clone, Debug, PartialEq, Eq)]
pub enum Rem {
    Pop,
    Remove,
    SwapRemove,
}

#[derive(Copy, Clone, Debug, PartialEq, Eq)]
pub enum Sink {
    Drop,
    Downcast,
    DowncastRef,
    MutDowncast,
    BytesMut,
    PushY,
    InsertY,
    PushBackSelf,
}

/// offer `val` to `v` through the erased API by source kind `src`
pub fn offer<Tr: ?Sized + Trait, B: Backend, E: Elem>(
    v: &mut AnyVec<Tr, B>,
    idx: usize,
    push: bool,
    src: Src,
    val: E,
) {
    match src {
        Src::Wrapper => {
            if push {
                v.push(AnyValueWrapper::new(val))
            } else {
                v.insert(idx, AnyValueWrapper::new(val))
            }
        }
        Src::Raw => {
            let raw = unsafe {
                AnyValueRaw::new(NonNull::from(&val).cast::<u8>(), size_of::<E>(), TypeId::of::<E>())
            };
            if push {
                v.push(raw)
            } else {
                v.insert(idx, raw)
            }
            core::mem::forget(val);
        }
        Src::Typeless => {
            let raw = unsafe { AnyValueTypelessRaw::new(NonNull::from(&val).cast::<u8>(), size_of::<E>()) };
            unsafe {
                if push {
                    v.push_unchecked(raw)
                } else {
                    v.insert_unchecked(idx, raw)
                }
            }
            core::mem::forget(val);
        }
        Src::Sizeless => {
            let raw = unsafe { AnyValueSizelessRaw::new(NonNull::from(&val).cast::<u8>()) };
            unsafe {
                if push {
                    v.push_unchecked(raw)
                } else {
                    v.insert_unchecked(idx, raw)
                }
            }
            core::mem::forget(val);
        }
        _ => unreachable!(),
    }
}

/// push / insert through the type-erased API, every source kind
pub fn ins_erased<Tr: ?Sized + Trait, B: Backend, BY: Backend, E: Elem + SatisfyTraits<Tr>>(
    p: P,
    src: Src,
    push: bool,
) {
    reset_all();
    let (mut v, mut m) = build::<Tr, B, E>(p.cap, p.len, 0);
    let len = m.len;
    if !B::RESIZABLE {
        assume(len < v.capacity());
    }
    let idx = if push {
        len
    } else {
        let i = p.idx.get();
        assume(i <= len);
        i
    };
    match src {
        Src::Wrapper | Src::Raw | Src::Typeless | Src::Sizeless => {
            let tag = any_u8();
            let val = E::make(NEW_ID, tag);
            offer::<Tr, B, E>(&mut v, idx, push, src, val);
            m.insert(idx, NEW_ID, E::norm(tag));
            check_vec::<Tr, B, E>(&v, &m);
        }
        _ => {
            let (mut y, mut my) = build::<Tr, BY, E>(p.cap2, p.len2, E::YBASE);
            assume(my.len > 0);
            match src {
                Src::YRemove => {
                    let j = p.idx2.get();
                    assume(j < my.len);
                    let h = y.remove(j);
                    let (id, tag) = my.remove(j);
                    if push {
                        v.push(h)
                    } else {
                        v.insert(idx, h)
                    }
                    m.insert(idx, id, tag);
                }
                Src::YSwapRemove => {
                    let j = p.idx2.get();
                    assume(j < my.len);
                    let h = y.swap_remove(j);
                    let (id, tag) = my.swap_remove(j);
                    if push {
                        v.push(h)
                    } else {
                        v.insert(idx, h)
                    }
                    m.insert(idx, id, tag);
                }
                Src::YPop => {
                    let h = y.pop().unwrap();
                    let (id, tag) = my.pop().unwrap();
                    if push {
                        v.push(h)
                    } else {
                        v.insert(idx, h)
                    }
                    m.insert(idx, id, tag);
                }
                Src::YDrain => {
                    // drain [j, len) of y; first yielded item goes into v, the rest is dropped
                    let j = p.idx2.get();
                    assume(j < my.len);
                    {
                        let mut d = y.drain(j..);
                        let h = d.next().unwrap();
                        if push {
                            v.push(h)
                        } else {
                            v.insert(idx, h)
                        }
                    }
                    m.insert(idx, my.id[j], my.tag[j]);
                    let e = my.len;
                    my.drain(j, e);
                }
                _ => unreachable!(),
            }
            check_vec::<Tr, B, E>(&v, &m);
            check_vec::<Tr, BY, E>(&y, &my);
            drop(y);
        }
    }
    drop(v);
    check_all_gone::<E>(false);
    reached_end();
}

/// push / insert of a lazy clone of an element of a second vector
pub fn ins_lazy<Tr: ?Sized + Trait + Cloneable, B: Backend, BY: Backend, E: Elem + SatisfyTraits<Tr>>(
    p: P,
    push: bool,
) {
    reset_all();
    let (mut v, mut m) = build::<Tr, B, E>(p.cap, p.len, 0);
    let len = m.len;
    if !B::RESIZABLE {
        assume(len < v.capacity());
    }
    let idx = if push {
        len
    } else {
        let i = p.idx.get();
        assume(i <= len);
        i
    };
    let (y, my) = build::<Tr, BY, E>(p.cap2, p.len2, E::YBASE);
    let j = p.idx2.get();
    assume(j < my.len);
    let before = elems::total_clones();
    {
        let r = y.at(j);
        if push {
            v.push(r.lazy_clone())
        } else {
            v.insert(idx, r.lazy_clone())
        }
    }
    vp_assert!(elems::total_clones() == before + 1, "VP: lazy clone consumption did not clone exactly once");
    m.insert(idx, my.id[j].wrapping_add(elems::CLONE_STEP), my.tag[j]);
    check_vec::<Tr, B, E>(&v, &m);
    check_vec::<Tr, BY, E>(&y, &my);
    drop(y);
    drop(v);
    check_all_gone::<E>(false);
    reached_end();
}

/// push / insert through the typed view
pub fn ins_typed<Tr: ?Sized + Trait, B: Backend, E: Elem + SatisfyTraits<Tr>>(p: P, push: bool) {
    reset_all();
    let (mut v, mut m) = build::<Tr, B, E>(p.cap, p.len, 0);
    let len = m.len;
    if !B::RESIZABLE {
        assume(len < v.capacity());
    }
    let idx = if push {
        len
    } else {
        let i = p.idx.get();
        assume(i <= len);
        i
    };
    let tag = any_u8();
    {
        let mut t = v.downcast_mut::<E>().unwrap();
        if push {
            t.push(E::make(NEW_ID, tag));
        } else {
            t.insert(idx, E::make(NEW_ID, tag));
        }
        vp_assert!(t.len() == len + 1, "VP: typed len() after insert");
    }
    m.insert(idx, NEW_ID, E::norm(tag));
    check_vec::<Tr, B, E>(&v, &m);
    drop(v);
    check_all_gone::<E>(false);
    reached_end();
}

/// pop / remove / swap_remove through the erased API, every sink kind
pub fn rem_erased<Tr: ?Sized + Trait, B: Backend, BY: Backend, E: Elem + SatisfyTraits<Tr>>(
    p: P,
    op: Rem,
    sink: Sink,
) {
    reset_all();
    let (mut v, mut m) = build::<Tr, B, E>(p.cap, p.len, 0);
    assume(m.len > 0);
    let idx = match op {
        Rem::Pop => m.len - 1,
        _ => {
            let i = p.idx.get();
            assume(i < m.len);
            i
        }
    };
    let (xid, mut xtag) = match op {
        Rem::Pop => m.pop().unwrap(),
        Rem::Remove => m.remove(idx),
        Rem::SwapRemove => m.swap_remove(idx),
    };
    let mut y_keep: Option<(AnyVec<Tr, BY>, Model)> = None;
    if sink == Sink::PushY || sink == Sink::InsertY {
        let (y, my) = build::<Tr, BY, E>(p.cap2, p.len2, E::YBASE);
        if !BY::RESIZABLE {
            assume(my.len < y.capacity());
        }
        y_keep = Some((y, my));
    }
    macro_rules! consume {
        ($h:expr) => {{
            let mut h = $h;
            vp_assert!(h.value_typeid() == TypeId::of::<E>(), "VP: handle reports wrong type id");
            vp_assert!(h.size() == size_of::<E>(), "VP: handle reports wrong size");
            match sink {
                Sink::Drop => {
                    if E::TRACKED {
                        vp_assert!(elems::live(xid) == 1, "VP: removed element destroyed before its handle");
                    }
                    drop(h);
                    if E::TRACKED {
                        vp_assert!(elems::live(xid) == 0 && elems::drops(xid) == 1, "VP: dropping a removal handle must destroy the element once");
                    }
                }
                Sink::Downcast => {
                    let val = h.downcast::<E>();
                    vp_assert!(val.is_some(), "VP: downcast to the real type failed");
                    let val = val.unwrap();
                    check_elem::<E>(&val, xid, xtag);
                }
                Sink::DowncastRef => {
                    {
                        let r = h.downcast_ref::<E>();
                        vp_assert!(r.is_some(), "VP: downcast_ref to the real type failed");
                        check_elem::<E>(r.unwrap(), xid, xtag);
                    }
                    drop(h);
                }
                Sink::MutDowncast => {
                    let t2 = any_u8();
                    {
                        let r = h.downcast_mut::<E>();
                        vp_assert!(r.is_some(), "VP: downcast_mut to the real type failed");
                        r.unwrap().set_tag(t2);
                    }
                    xtag = E::norm(t2);
                    let val = h.downcast::<E>().unwrap();
                    check_elem::<E>(&val, xid, xtag);
                }
                Sink::BytesMut => {
                    // byte view of the handle covers exactly the element
                    vp_assert!(h.as_bytes().len() == size_of::<E>(), "VP: handle byte view length");
                    vp_assert!(h.as_bytes_mut().len() == size_of::<E>(), "VP: handle mutable byte view length");
                    let val = h.downcast::<E>().unwrap();
                    check_elem::<E>(&val, xid, xtag);
                }
                Sink::PushY => {
                    let (y, my) = y_keep.as_mut().unwrap();
                    y.push(h);
                    my.push(xid, xtag);
                }
                Sink::InsertY => {
                    let (y, my) = y_keep.as_mut().unwrap();
                    let j = p.idx2.get();
                    assume(j <= my.len);
                    y.insert(j, h);
                    my.insert(j, xid, xtag);
                }
                Sink::PushBackSelf => unreachable!(),
            }
        }};
    }
    match op {
        Rem::Pop => {
            let h = v.pop();
            vp_assert!(h.is_some(), "VP: pop on non-empty vector returned None");
            consume!(h.unwrap())
        }
        Rem::Remove => consume!(v.remove(idx)),
        Rem::SwapRemove => consume!(v.swap_remove(idx)),
    }
    check_vec::<Tr, B, E>(&v, &m);
    if let Some((y, my)) = y_keep {
        check_vec::<Tr, BY, E>(&y, &my);
        drop(y);
    }
    drop(v);
    check_all_gone::<E>(false);
    reached_end();
}

/// pop / remove / swap_remove through the typed view
pub fn rem_typed<Tr: ?Sized + Trait, B: Backend, E: Elem + SatisfyTraits<Tr>>(p: P, op: Rem) {
    reset_all();
    let (mut v, mut m) = build::<Tr, B, E>(p.cap, p.len, 0);
    assume(m.len > 0);
    let idx = match op {
        Rem::Pop => m.len - 1,
        _ => {
            let i = p.idx.get();
            assume(i < m.len);
            i
        }
    };
    let (xid, xtag) = match op {
        Rem::Pop => m.pop().unwrap(),
        Rem::Remove => m.remove(idx),
        Rem::SwapRemove => m.swap_remove(idx),
    };
    {
        let mut t = v.downcast_mut::<E>().unwrap();
        let val = match op {
            Rem::Pop => {
                let o = t.pop();
                vp_assert!(o.is_some(), "VP: typed pop on non-empty vector returned None");
                o.unwrap()
            }
            Rem::Remove => t.remove(idx),
            Rem::SwapRemove => t.swap_remove(idx),
        };
        check_elem::<E>(&val, xid, xtag);
    }
    check_vec::<Tr, B, E>(&v, &m);
    drop(v);
    check_all_gone::<E>(false);
    reached_end();
}

/// clear (erased or typed), then the vector is reusable
pub fn clear_h<Tr: ?Sized + Trait, B: Backend, E: Elem + SatisfyTraits<Tr>>(p: P, typed: bool) {
    reset_all();
    let (mut v, mut m) = build::<Tr, B, E>(p.cap, p.len, 0);
    let cap = v.capacity();
    let n = m.len;
    if typed {
        v.downcast_mut::<E>().unwrap().clear();
    } else {
        v.clear();
    }
    m.clear();
    check_vec::<Tr, B, E>(&v, &m);
    vp_assert!(v.capacity() == cap, "VP: clear changed capacity");
    if E::TRACKED {
        vp_assert!(elems::total_drops() == n, "VP: clear must destroy exactly the elements it held");
    }
    assume(cap > 0);
    let tag = any_u8();
    v.push(AnyValueWrapper::new(E::make(NEW_ID, tag)));
    m.push(NEW_ID, E::norm(tag));
    check_vec::<Tr, B, E>(&v, &m);
    drop(v);
    check_all_gone::<E>(false);
    reached_end();
}

#[derive(Copy, Clone, Debug, PartialEq, Eq)]
pub enum Oor {
    Remove,
    SwapRemove,
    Insert,
    At,
    AtMut,
    Get,
    GetMut,
    Pop,
    TRemove,
    TSwapRemove,
    TInsert,
    TAt,
    TAtMut,
    TGet,
    TGetMut,
    TPop,
}

/// out-of-range index: panics (remove, swap_remove, insert, at, at_mut) or None (get, get_mut, pop on
/// empty); the vector is unchanged where that is observable (None results; natively also after the panic)
pub fn oor<Tr: ?Sized + Trait, B: Backend, E: Elem + SatisfyTraits<Tr>>(p: P, which: Oor) {
    reset_all();
    let (mut v, m) = build::<Tr, B, E>(p.cap, p.len, 0);
    let d = p.idx.get(); // distance beyond the last valid index: 0 or 1
    let is_insert = which == Oor::Insert || which == Oor::TInsert;
    let idx = m.len + d + if is_insert { 1 } else { 0 };
    match which {
        Oor::Get => {
            vp_assert!(v.get(idx).is_none(), "VP: get(out of range) returned an element");
        }
        Oor::GetMut => {
            vp_assert!(v.get_mut(idx).is_none(), "VP: get_mut(out of range) returned an element");
        }
        Oor::TGet => {
            vp_assert!(v.downcast_ref::<E>().unwrap().get(idx).is_none(), "VP: typed get(out of range) returned an element");
        }
        Oor::TGetMut => {
            vp_assert!(v.downcast_mut::<E>().unwrap().get_mut(idx).is_none(), "VP: typed get_mut(out of range) returned an element");
        }
        Oor::Pop => {
            assume(m.len == 0);
            vp_assert!(v.pop().is_none(), "VP: pop on empty vector returned a value");
        }
        Oor::TPop => {
            assume(m.len == 0);
            vp_assert!(v.downcast_mut::<E>().unwrap().pop().is_none(), "VP: typed pop on empty vector returned a value");
        }
        Oor::Remove => must_panic("Index out of range", || {
            let _ = v.remove(idx);
        }),
        Oor::SwapRemove => must_panic("Index out of range", || {
            let _ = v.swap_remove(idx);
        }),
        Oor::Insert => must_panic("Index out of range", || {
            v.insert(idx, AnyValueWrapper::new(E::make(NEW_ID, 0)));
        }),
        Oor::At => must_panic("unwrap", || {
            let _ = v.at(idx);
        }),
        Oor::AtMut => must_panic("unwrap", || {
            let _ = v.at_mut(idx);
        }),
        Oor::TRemove => must_panic("Index out of range", || {
            let _ = v.downcast_mut::<E>().unwrap().remove(idx);
        }),
        Oor::TSwapRemove => must_panic("Index out of range", || {
            let _ = v.downcast_mut::<E>().unwrap().swap_remove(idx);
        }),
        Oor::TInsert => must_panic("Index out of range", || {
            v.downcast_mut::<E>().unwrap().insert(idx, E::make(NEW_ID, 0));
        }),
        Oor::TAt => must_panic("unwrap", || {
            let _ = v.downcast_ref::<E>().unwrap().at(idx);
        }),
        Oor::TAtMut => must_panic("unwrap", || {
            let _ = v.downcast_mut::<E>().unwrap().at_mut(idx);
        }),
    }
    // reached under Kani only for the None-returning calls; natively also after a caught panic
    check_vec::<Tr, B, E>(&v, &m);
    drop(v);
    check_all_gone::<E>(false);
    reached_end();
}

/// Large concrete shape without the model (the 128-byte switch inside `copy_bytes`):
/// `len` one-byte elements, insert one value at `idx` by source `src`, then compare an arbitrary
/// position with the closed-form expectation.
pub fn big_remove<Tr: ?Sized + Trait, B: Backend, E: Elem + SatisfyTraits<Tr>>(len: usize, idx: usize, typed: bool) {
    reset_all();
    let mut v: AnyVec<Tr, B> = B::mk::<Tr, E>(len);
    {
        let mut t = v.downcast_mut::<E>().unwrap();
        let p = t.as_mut_ptr();
        let mut i = 0;
        while i < len {
            unsafe { p.add(i).write(E::make((i & 0xF) as u8, ((i >> 4) & 0xF) as u8)) };
            i += 1;
        }
        unsafe { t.set_len(len) };
    }
    if typed {
        let x = v.downcast_mut::<E>().unwrap().remove(idx);
        vp_assert!(x.id() == (idx & 0xF) as u8 && x.tag() == ((idx >> 4) & 0xF) as u8, "VP: removed element differs from Vec model");
    } else {
        drop(v.remove(idx));
    }
    vp_assert!(v.len() == len - 1, "VP: len() differs from Vec model");
    let t = v.downcast_ref::<E>().unwrap();
    let s = t.as_slice();
    let j = any_usize();
    let chk = |j: usize| {
        let e = &s[j];
        let o = if j < idx { j } else { j + 1 };
        vp_assert!(e.id() == (o & 0xF) as u8 && e.tag() == ((o >> 4) & 0xF) as u8, "VP: element identity differs from Vec model");
    };
    #[cfg(kani)]
    {
        assume(j < len - 1);
        chk(j);
    }
    #[cfg(not(kani))]
    {
        let _ = j;
        for j in 0..len - 1 {
            chk(j);
        }
    }
    drop(v);
    reached_end();
}

pub fn big<Tr: ?Sized + Trait, B: Backend, E: Elem + SatisfyTraits<Tr>>(len: usize, idx: usize, src: Src) {
    reset_all();
    let mut v: AnyVec<Tr, B> = B::mk::<Tr, E>(len + 1);
    {
        let mut t = v.downcast_mut::<E>().unwrap();
        let p = t.as_mut_ptr();
        let mut i = 0;
        while i < len {
            unsafe { p.add(i).write(E::make((i & 0xF) as u8, ((i >> 4) & 0xF) as u8)) };
            i += 1;
        }
        unsafe { t.set_len(len) };
    }
    let tag = any_u8();
    offer::<Tr, B, E>(&mut v, idx, false, src, E::make(0xF, tag));
    vp_assert!(v.len() == len + 1, "VP: len() differs from Vec model");
    let t = v.downcast_ref::<E>().unwrap();
    let s = t.as_slice();
    let j = any_usize();
    let chk = |j: usize| {
        let e = &s[j];
        if j == idx {
            vp_assert!(e.id() == 0xF && e.tag() == E::norm(tag), "VP: inserted element differs from Vec model");
        } else {
            let o = if j < idx { j } else { j - 1 };
            vp_assert!(e.id() == (o & 0xF) as u8 && e.tag() == ((o >> 4) & 0xF) as u8, "VP: element identity differs from Vec model");
        }
    };
    #[cfg(kani)]
    {
        assume(j <= len);
        chk(j);
    }
    #[cfg(not(kani))]
    {
        let _ = j;
        for j in 0..=len {
            chk(j);
        }
    }
    drop(v);
    reached_end();
}
