//! Stubs (Kani `-Z stubbing`). Every stub is part of the claim of the harnesses that use it.

/// Replaces `core::panicking::assert_failed` (the failure path of `assert_eq!`, used by
/// `assert_types_equal` and `AnyValueMut::swap`). Without it `Debug` formatting of `TypeId`
/// pulls `core::fmt` into the formula. The stub runs the registered "state at rejection"
/// inspector, then fails a check the driver knows as the expected type-mismatch panic.
#[cfg(kani)]
pub fn assert_failed_stub<T: core::fmt::Debug + ?Sized, U: core::fmt::Debug + ?Sized>(
    _kind: core::panicking::AssertKind,
    _left: &T,
    _right: &U,
    _args: Option<core::fmt::Arguments<'_>>,
) -> ! {
    crate::c04::at_type_mismatch();
    panic!("VP-EXPECTED: type mismatch (assert_failed)")
}
