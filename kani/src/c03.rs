//! C03 – ownership accounting over several vectors; C07 – mem::forget only leaks.

use crate::backends::Backend;
use crate::c02::{fill_slots, Rep, RMAX};
use crate::elems::{self, Elem};
use crate::model::*;
use crate::state::*;
use crate::sym::*;
use crate::vp_assert;
use any_vec::any_value::*;
use any_vec::traits::{Cloneable, Trait};
use any_vec::{AnyVec, SatisfyTraits};
use core::marker::PhantomData;
use core::mem::MaybeUninit;

/// Validity of a vector whose tail may have been leaked: `len <= pre.len`, `len <= capacity`, the first
/// `keep` elements equal the pre-state, every visible element is intact, live and appears once.
pub fn check_valid_leaky<Tr: ?Sized + Trait, B: Backend, E: Elem>(v: &AnyVec<Tr, B>, pre: &Model, keep: usize) {
    vp_assert!(v.len() <= v.capacity(), "VP: len exceeds capacity");
    if E::ZST {
        return;
    }
    let t = v.downcast_ref::<E>().unwrap();
    let s = t.as_slice();
    vp_assert!(s.len() == v.len(), "VP: typed slice length differs from len()");
    let a = any_usize();
    let b = any_usize();
    let one = |a: usize, b: usize| {
        if a < s.len() {
            vp_assert!(s[a].intact(), "VP: visible element is corrupted (moved-out or garbage bytes)");
            if E::TRACKED {
                vp_assert!(elems::live(s[a].id()) == 1, "VP: visible element is not alive (destroyed or moved out)");
            }
            if a < keep {
                vp_assert!(a < pre.len && s[a].id() == pre.id[a] && s[a].tag() == pre.tag[a], "VP: element before the affected index changed");
            }
            if b < s.len() && a != b {
                vp_assert!(s[a].id() != s[b].id(), "VP: the same element is visible twice");
            }
        }
    };
    #[cfg(kani)]
    one(a, b);
    #[cfg(not(kani))]
    {
        let _ = (a, b);
        for a in 0..s.len() {
            for b in 0..s.len() {
                one(a, b);
            }
        }
    }
}

#[derive(Copy, Clone, Debug, PartialEq, Eq)]
pub enum FOp {
    Pop,
    Remove,
    SwapRemove,
    Drain,
    Splice,
    DrainItem,
    SpliceItem,
    TDrain,
}

/// C07: leak the handle / iterator (after `f` front and `b` back items) / a yielded item, then keep using the vector
pub fn forget_h<Tr: ?Sized + Trait, B: Backend, E: Elem + SatisfyTraits<Tr>>(p: crate::c02::P2, op: FOp) {
    reset_all();
    let (mut v, m) = build::<Tr, B, E>(p.cap, p.len, 0);
    let len = m.len;
    let mut slots: [MaybeUninit<E>; RMAX] = unsafe { MaybeUninit::uninit().assume_init() };
    let sp = slots.as_mut_ptr() as *mut E;
    let mut keep = 0;
    let mut expect_model: Option<Model> = None;
    match op {
        FOp::Pop => {
            assume(len > 0);
            let h = v.pop().unwrap();
            core::mem::forget(h);
            keep = len - 1;
            vp_assert!(v.len() == len - 1, "VP: a forgotten pop handle must leave exactly the last element missing");
        }
        FOp::Remove | FOp::SwapRemove => {
            let i = p.start.get();
            assume(i < len);
            if op == FOp::Remove {
                core::mem::forget(v.remove(i));
            } else {
                core::mem::forget(v.swap_remove(i));
            }
            keep = i;
            vp_assert!(v.len() >= i && v.len() <= len, "VP: forgotten removal handle left an impossible length");
        }
        FOp::Drain | FOp::Splice | FOp::TDrain => {
            let s = p.start.get();
            let e = p.end.get();
            assume(s <= e && e <= len);
            let f = p.f.get();
            let b = p.b.get();
            assume(f <= p.fb && b <= p.fb && f + b <= e - s);
            macro_rules! take {
                ($d:expr) => {{
                    let mut k = 0;
                    while k < p.fb {
                        if k < f {
                            drop($d.next());
                        }
                        k += 1;
                    }
                    let mut k = 0;
                    while k < p.fb {
                        if k < b {
                            drop($d.next_back());
                        }
                        k += 1;
                    }
                }};
            }
            match op {
                FOp::Drain => {
                    let mut d = v.drain(s..e);
                    take!(d);
                    core::mem::forget(d);
                }
                FOp::TDrain => {
                    let mut t = v.downcast_mut::<E>().unwrap();
                    let mut d = t.drain(s..e);
                    take!(d);
                    core::mem::forget(d);
                }
                _ => {
                    let n = p.r.get();
                    assume(n <= 2);
                    if !B::RESIZABLE {
                        assume(len - (e - s) + n <= v.capacity());
                    }
                    let _ = fill_slots::<E>(&mut slots, n);
                    let mut d = v.splice(s..e, Rep::<E, false> { slots: sp, n, k: 0, delta: 0, ph: PhantomData });
                    take!(d);
                    core::mem::forget(d);
                }
            }
            keep = s;
            vp_assert!(v.len() >= s && v.len() <= len, "VP: forgotten range iterator left an impossible length");
            if !E::ZST && !E::TRACKED && op != FOp::Splice {
                // types without drop glue have no registry entry: an item that was taken (it now belongs to the caller)
                // must not be visible in the vector any more
                let t = v.downcast_ref::<E>().unwrap();
                let sl = t.as_slice();
                let chk = |q: usize| {
                    if q < sl.len() {
                        vp_assert!(!(f > 0 && sl[q].id() == m.id[s]) && !(b > 0 && sl[q].id() == m.id[e - 1]), "VP: an element that was moved out is still visible");
                    }
                };
                #[cfg(kani)]
                chk(any_usize());
                #[cfg(not(kani))]
                for q in 0..sl.len() {
                    chk(q);
                }
            }
        }
        FOp::DrainItem | FOp::SpliceItem => {
            let s = p.start.get();
            let e = p.end.get();
            assume(s < e && e <= len);
            let from_back = any_bool();
            if op == FOp::DrainItem {
                let mut d = v.drain(s..e);
                let it = if from_back { d.next_back() } else { d.next() };
                core::mem::forget(it.unwrap());
            } else {
                let mut d = v.splice(s..e, Rep::<E, false> { slots: sp, n: 0, k: 0, delta: 0, ph: PhantomData });
                let it = if from_back { d.next_back() } else { d.next() };
                core::mem::forget(it.unwrap());
            }
            // the iterator itself was dropped normally: the vector is exactly the drained one
            let mut mm = m;
            mm.drain(s, e);
            expect_model = Some(mm);
            keep = s;
        }
    }
    check_valid_leaky::<Tr, B, E>(&v, &m, keep);
    if let Some(mm) = expect_model {
        // leaked item is still alive but no longer visible
        if !E::ZST {
            vp_assert!(v.len() == mm.len, "VP: length differs from Vec model after leaking a yielded item");
        }
    }
    // the vector stays fully usable: one more push (if there is room), then drop
    if B::RESIZABLE || v.len() < v.capacity() {
        let tag = any_u8();
        v.push(AnyValueWrapper::new(E::make(NEW_ID + 3, tag)));
        let n = v.len();
        if !E::ZST {
            let t = v.downcast_ref::<E>().unwrap();
            check_elem::<E>(&t.as_slice()[n - 1], NEW_ID + 3, E::norm(tag));
        }
        check_valid_leaky::<Tr, B, E>(&v, &m, keep);
    }
    drop(v);
    check_all_gone::<E>(true);
    reached_end();
}

/// how many times `id` is visible in `v`
pub fn visible<Tr: ?Sized + Trait, B: Backend, E: Elem>(v: &AnyVec<Tr, B>, id: u8) -> usize {
    let t = v.downcast_ref::<E>().unwrap();
    let s = t.as_slice();
    let mut n = 0;
    let mut k = 0;
    while k < MM {
        if k < s.len() && s[k].id() == id {
            n += 1;
        }
        k += 1;
    }
    n
}

#[derive(Copy, Clone, Debug, PartialEq, Eq)]
pub enum Step {
    /// remove(i) of src -> push into dst
    RemovePush,
    /// swap_remove(i) of src -> insert(j) into dst
    SwapRemoveInsert,
    /// pop of src -> push into dst
    PopPush,
    /// first drained item of src[i..] -> push into dst, rest destroyed
    DrainPush,
    /// remove(i) of src, handle dropped
    RemoveDrop,
    /// remove(i) of src, downcast, value re-inserted into src at 0
    RemoveReinsert,
    /// clear src
    Clear,
}

fn step3<Tr: ?Sized + Trait, B: Backend, E: Elem + SatisfyTraits<Tr>>(
    vs: &mut [AnyVec<Tr, B>; 3],
    ms: &mut [Model; 3],
    st: Step,
    src: usize,
    dst: usize,
    i: usize,
    j: usize,
) {
    // src != dst is guaranteed by the driver's enumeration
    let (a, b) = if src < dst {
        let (l, r) = vs.split_at_mut(dst);
        (&mut l[src], &mut r[0])
    } else {
        let (l, r) = vs.split_at_mut(src);
        (&mut r[0], &mut l[dst])
    };
    match st {
        Step::RemovePush => {
            if i < ms[src].len {
                b.push(a.remove(i));
                let (id, tag) = ms[src].remove(i);
                ms[dst].push(id, tag);
            }
        }
        Step::SwapRemoveInsert => {
            if i < ms[src].len && j <= ms[dst].len {
                b.insert(j, a.swap_remove(i));
                let (id, tag) = ms[src].swap_remove(i);
                ms[dst].insert(j, id, tag);
            }
        }
        Step::PopPush => {
            if let Some(h) = a.pop() {
                b.push(h);
                let (id, tag) = ms[src].pop().unwrap();
                ms[dst].push(id, tag);
            }
        }
        Step::DrainPush => {
            if i < ms[src].len {
                {
                    let mut d = a.drain(i..);
                    b.push(d.next().unwrap());
                }
                ms[dst].push(ms[src].id[i], ms[src].tag[i]);
                let e = ms[src].len;
                ms[src].drain(i, e);
            }
        }
        Step::RemoveDrop => {
            if i < ms[src].len {
                drop(a.remove(i));
                let _ = ms[src].remove(i);
            }
        }
        Step::RemoveReinsert => {
            if i < ms[src].len {
                let val = a.remove(i).downcast::<E>().unwrap();
                let (id, tag) = ms[src].remove(i);
                a.insert(0, AnyValueWrapper::new(val));
                ms[src].insert(0, id, tag);
            }
        }
        Step::Clear => {
            a.clear();
            ms[src].clear();
        }
    }
}

/// C03: up to three steps over three vectors (concrete shapes, symbolic payloads). After every step
/// each identity is visible in at most one place and exactly as often as it is alive.
pub fn chain3<Tr: ?Sized + Trait, B: Backend, E: Elem + SatisfyTraits<Tr>>(lens: [usize; 3], steps: [(Step, usize, usize, usize, usize); 3], nsteps: usize) {
    reset_all();
    let (v0, m0) = build::<Tr, B, E>(Dim::Fix(5), Dim::Fix(lens[0]), 0);
    let (v1, m1) = build::<Tr, B, E>(Dim::Fix(5), Dim::Fix(lens[1]), 16);
    let (v2, m2) = build::<Tr, B, E>(Dim::Fix(5), Dim::Fix(lens[2]), 32);
    let mut vs = [v0, v1, v2];
    let mut ms = [m0, m1, m2];
    let mut k = 0;
    while k < nsteps {
        let (st, src, dst, i, j) = steps[k];
        step3::<Tr, B, E>(&mut vs, &mut ms, st, src, dst, i, j);
        // accounting for an arbitrary identity
        if !E::ZST {
            let id = any_u8();
            assume((id as usize) < elems::NID);
            let seen = visible::<Tr, B, E>(&vs[0], id) + visible::<Tr, B, E>(&vs[1], id) + visible::<Tr, B, E>(&vs[2], id);
            vp_assert!(seen <= 1, "VP: the same element is visible in two places");
            if E::TRACKED {
                vp_assert!(seen as i8 == elems::live(id), "VP: an element's visibility differs from its liveness (destroyed while reachable, or leaked)");
                vp_assert!(elems::drops(id) <= 1, "VP: element destroyed twice");
            }
        }
        k += 1;
    }
    check_vec::<Tr, B, E>(&vs[0], &ms[0]);
    check_vec::<Tr, B, E>(&vs[1], &ms[1]);
    check_vec::<Tr, B, E>(&vs[2], &ms[2]);
    drop(vs);
    check_all_gone::<E>(false);
    reached_end();
}

/// clone in the ownership picture: a cloned vector owns fresh identities; dropping either vector leaves the other's alive
pub fn clone_own<Tr: ?Sized + Trait + Cloneable, B: Backend, E: Elem + SatisfyTraits<Tr>>(p: crate::c01::P) {
    reset_all();
    let (v, m) = build::<Tr, B, E>(p.cap, p.len, 0);
    let c = v.clone();
    let k = any_usize();
    let first = any_bool();
    let kk = if k < m.len { k } else { 0 };
    let chk = m.len > 0;
    if first {
        drop(v);
        if E::TRACKED && chk {
            vp_assert!(elems::live(m.id[kk]) == 0 && elems::drops(m.id[kk]) == 1, "VP: dropping the original must destroy its elements once");
            vp_assert!(elems::live(m.id[kk].wrapping_add(elems::CLONE_STEP)) == 1, "VP: dropping the original destroyed an element of the clone");
        }
        drop(c);
    } else {
        drop(c);
        if E::TRACKED && chk {
            vp_assert!(elems::live(m.id[kk]) == 1 && elems::drops(m.id[kk]) == 0, "VP: dropping the clone destroyed an element of the original");
        }
        check_vec::<Tr, B, E>(&v, &m);
        drop(v);
    }
    check_all_gone::<E>(false);
    reached_end();
}
