//! placeholder
pub fn at_type_mismatch() {}
