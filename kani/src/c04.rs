//! C04 – values of the wrong runtime type are never admitted or reinterpreted.

use crate::backends::Backend;
use crate::c02::{fill_slots, Rep, RMAX};
use crate::elems::{self, Elem, B1, D24D, W8};
use crate::model::*;
use crate::state::*;
use crate::sym::*;
use crate::vp_assert;
use any_vec::any_value::*;
use any_vec::traits::{Cloneable, Trait};
use any_vec::{AnyVec, SatisfyTraits};
use core::alloc::Layout;
use core::any::TypeId;
use core::marker::PhantomData;
use core::mem::{size_of, MaybeUninit};
use core::ptr::NonNull;

// ---- "state at the rejection point" inspector, run by the assert_failed stub (Kani only).
// Dispatch is a trait-object call (Kani restricts vtable targets to the impls of `Inspect`); a plain
// `fn()` pointer would make CBMC consider every address-taken `fn()` of the program.
pub trait Inspect {
    fn inspect(&self);
}
pub struct Insp<Tr: ?Sized + Trait, B: Backend, E: Elem> {
    v: *const AnyVec<Tr, B>,
    snap: Model,
    mode: u8, // 0 none, 1 unchanged, 2 valid prefix
    ph: PhantomData<E>,
}
impl<Tr: ?Sized + Trait, B: Backend, E: Elem> Inspect for Insp<Tr, B, E> {
    fn inspect(&self) {
        unsafe {
            let v = &*self.v;
            INSPECTED = true;
            if self.mode == 1 {
                vp_assert!(v.len() == self.snap.len, "VP: vector length changed before a type mismatch was rejected");
                check_vec::<Tr, B, E>(v, &self.snap);
            } else if self.mode == 2 {
                vp_assert!(v.len() <= self.snap.len && v.len() <= v.capacity(), "VP: vector invalid at the point a mismatched splice item is rejected");
                let t = v.downcast_ref::<E>().unwrap();
                let s = t.as_slice();
                let j = any_usize();
                if j < s.len() {
                    check_elem::<E>(&s[j], self.snap.id[j], self.snap.tag[j]);
                }
            }
        }
    }
}
pub static mut INSPECT_OBJ: Option<*const dyn Inspect> = None;
pub static mut INSPECTED: bool = false;

pub fn reset() {
    unsafe {
        INSPECT_OBJ = None;
        INSPECTED = false;
    }
}

pub fn at_type_mismatch() {
    unsafe {
        if let Some(p) = INSPECT_OBJ {
            (*p).inspect();
        }
    }
}

/// registers the inspector; the returned box-like value must stay alive until the call under test returned
pub fn arm<Tr: ?Sized + Trait, B: Backend, E: Elem>(v: &AnyVec<Tr, B>, m: &Model, mode: u8) -> Insp<Tr, B, E> {
    Insp { v: v as *const AnyVec<Tr, B>, snap: *m, mode, ph: PhantomData }
}
pub fn engage<'a>(i: &'a (dyn Inspect + 'a)) {
    unsafe {
        INSPECT_OBJ = Some(core::mem::transmute::<*const (dyn Inspect + 'a), *const (dyn Inspect + 'static)>(i as *const (dyn Inspect + 'a)));
    }
}

/// Offered value types (need not be zoo elements).
pub trait Off: 'static + Sized {
    fn mk() -> Self;
}
impl Off for u64 {
    fn mk() -> Self {
        0x0102030405060708
    }
}
impl Off for i64 {
    fn mk() -> Self {
        -5
    }
}
impl Off for f64 {
    fn mk() -> Self {
        1.5
    }
}
impl Off for [u8; 8] {
    fn mk() -> Self {
        [7; 8]
    }
}
impl Off for W8 {
    fn mk() -> Self {
        W8::make(NEW_ID, 1)
    }
}
impl Off for B1 {
    fn mk() -> Self {
        B1::make(NEW_ID, 1)
    }
}
impl Off for D24D {
    fn mk() -> Self {
        D24D::make(NEW_ID, 1)
    }
}
impl Off for crate::elems::W8D {
    fn mk() -> Self {
        crate::elems::W8D::make(NEW_ID, 1)
    }
}
impl Off for crate::elems::B3D {
    fn mk() -> Self {
        crate::elems::B3D::make(NEW_ID, 1)
    }
}

#[derive(Copy, Clone, Debug, PartialEq, Eq)]
pub enum Entry {
    PushWrapper,
    InsertWrapper,
    PushRaw,
    InsertRaw,
    /// removal handle of a vector of `O` pushed into the vector of `V`
    PushHandle,
    InsertHandle,
}

/// offering a value of type `O` to a vector of `V`: panics iff `O != V`; on rejection the vector is
/// unchanged at the rejection point (Kani: stub inspector) and afterwards (native replay).
pub fn offer_type<Tr: ?Sized + Trait, B: Backend, V: Elem + SatisfyTraits<Tr>, O: Off + SatisfyTraits<Tr>>(p: crate::c01::P, entry: Entry) {
    reset_all();
    reset();
    let (mut v, mut m) = build::<Tr, B, V>(p.cap, p.len, 0);
    if !B::RESIZABLE {
        assume(m.len < v.capacity());
    }
    let idx = p.idx.get();
    assume(idx <= m.len);
    let same = TypeId::of::<V>() == TypeId::of::<O>();
    let insp = arm::<Tr, B, V>(&v, &m, 1);
    engage(&insp);
    let mut act = || match entry {
        Entry::PushWrapper => v.push(AnyValueWrapper::new(O::mk())),
        Entry::InsertWrapper => v.insert(idx, AnyValueWrapper::new(O::mk())),
        Entry::PushRaw | Entry::InsertRaw => {
            let val = O::mk();
            let raw = unsafe { AnyValueRaw::new(NonNull::from(&val).cast::<u8>(), size_of::<O>(), TypeId::of::<O>()) };
            vp_assert!(raw.value_typeid() == TypeId::of::<O>() && raw.size() == size_of::<O>(), "VP: AnyValueRaw misreports its type id / size");
            if entry == Entry::PushRaw {
                v.push(raw)
            } else {
                v.insert(idx, raw)
            }
            if same {
                core::mem::forget(val);
            }
        }
        Entry::PushHandle | Entry::InsertHandle => {
            let mut y: AnyVec<Tr, any_vec::mem::Stack<64>> = AnyVec::new_in::<O>(any_vec::mem::Stack::<64>);
            y.push(AnyValueWrapper::new(O::mk()));
            let h = y.pop().unwrap();
            vp_assert!(h.value_typeid() == TypeId::of::<O>() && h.size() == size_of::<O>(), "VP: removal handle misreports its type id / size");
            if entry == Entry::PushHandle {
                v.push(h)
            } else {
                v.insert(idx, h)
            }
        }
    };
    if same {
        act();
        let at = match entry {
            Entry::PushWrapper | Entry::PushRaw | Entry::PushHandle => m.len,
            _ => idx,
        };
        m.insert(at, NEW_ID, V::norm(1));
        check_vec::<Tr, B, V>(&v, &m);
    } else {
        must_panic("Type mismatch", act);
        check_vec::<Tr, B, V>(&v, &m);
    }
    drop(v);
    reached_end();
}

/// splice with a mismatching item at position `bad` of the replacement: must panic; the vector is valid
/// (a prefix of the original) at the rejection point.
pub fn splice_type<Tr: ?Sized + Trait, B: Backend, V: Elem + SatisfyTraits<Tr>, O: Off>(p: crate::c02::P2) {
    reset_all();
    reset();
    let (mut v, m) = build::<Tr, B, V>(p.cap, p.len, 0);
    let s = p.start.get();
    let e = p.end.get();
    assume(s <= e && e <= m.len);
    let n = p.r.get(); // good items before the bad one
    assume(n <= 2);
    if !B::RESIZABLE {
        assume(m.len - (e - s) + n + 1 <= v.capacity());
    }
    let insp = arm::<Tr, B, V>(&v, &m, 2);
    engage(&insp);
    let mut slots: [MaybeUninit<V>; RMAX] = unsafe { MaybeUninit::uninit().assume_init() };
    let _ = fill_slots::<V>(&mut slots, n);
    let sp = slots.as_mut_ptr() as *mut V;
    let bad = O::mk();
    let badp = &bad as *const O as *mut u8;
    must_panic("Type mismatch", || {
        let it = Mixed::<V> { slots: sp, n, k: 0, bad: badp, bad_size: size_of::<O>(), bad_ty: TypeId::of::<O>() };
        let _ = v.splice(s..e, it);
    });
    // native replay only: after unwinding the vector is still valid and droppable
    vp_assert!(v.len() <= m.len && v.len() <= v.capacity(), "VP: vector invalid after a rejected splice");
    drop(v);
    reached_end();
}

/// `n` good raw items followed by one item of another type
pub struct Mixed<V> {
    slots: *mut V,
    n: usize,
    k: usize,
    bad: *mut u8,
    bad_size: usize,
    bad_ty: TypeId,
}
impl<V: 'static> Iterator for Mixed<V> {
    type Item = AnyValueRaw;
    fn next(&mut self) -> Option<AnyValueRaw> {
        let k = self.k;
        self.k += 1;
        if k < self.n {
            Some(unsafe { AnyValueRaw::new(NonNull::new_unchecked(self.slots.add(k) as *mut u8), size_of::<V>(), TypeId::of::<V>()) })
        } else if k == self.n {
            Some(unsafe { AnyValueRaw::new(NonNull::new_unchecked(self.bad), self.bad_size, self.bad_ty) })
        } else {
            None
        }
    }
    fn size_hint(&self) -> (usize, Option<usize>) {
        let l = (self.n + 1).saturating_sub(self.k);
        (l, Some(l))
    }
}
impl<V: 'static> ExactSizeIterator for Mixed<V> {
    fn len(&self) -> usize {
        (self.n + 1).saturating_sub(self.k)
    }
}

#[derive(Copy, Clone, Debug, PartialEq, Eq)]
pub enum SwapPair {
    ElemMutWrapper,
    ElemMutRaw,
    HandleWrapper,
    HandleRaw,
    WrapperElemMut,
    RawElemMut,
    ElemMutHandle,
}

/// `AnyValueMut::swap` between a handle into a vector of `V` and a value of type `O`:
/// panics iff the types differ (nothing changes), exchanges exactly the two values otherwise.
pub fn swap_type<Tr: ?Sized + Trait, B: Backend, V: Elem + SatisfyTraits<Tr>, O: Off + SatisfyTraits<Tr>>(p: crate::c01::P, pair: SwapPair) {
    reset_all();
    reset();
    let (mut v, mut m) = build::<Tr, B, V>(p.cap, p.len, 0);
    assume(m.len > 0);
    let idx = p.idx.get();
    assume(idx < m.len);
    let same = TypeId::of::<V>() == TypeId::of::<O>();
    let mut other = O::mk();
    let op = &mut other as *mut O;
    let mut engage_swap: Option<Insp<Tr, B, V>> = None;
    if !same {
        // with a removal handle the vector is (legitimately) shortened while the handle lives
        let mode = match pair {
            SwapPair::HandleWrapper | SwapPair::HandleRaw => 0,
            _ => 1,
        };
        engage_swap = Some(arm::<Tr, B, V>(&v, &m, mode));
    }
    if let Some(i) = engage_swap.as_ref() {
        engage(i);
    }
    let mut act = || match pair {
        SwapPair::ElemMutWrapper => {
            let mut w = AnyValueWrapper::new(unsafe { core::ptr::read(op) });
            let mut em = v.at_mut(idx);
            em.swap(&mut w);
            unsafe { core::ptr::write(op, w.downcast::<O>().unwrap()) };
        }
        SwapPair::WrapperElemMut => {
            let mut w = AnyValueWrapper::new(unsafe { core::ptr::read(op) });
            let mut em = v.at_mut(idx);
            w.swap(&mut *em);
            unsafe { core::ptr::write(op, w.downcast::<O>().unwrap()) };
        }
        SwapPair::ElemMutRaw => {
            let mut raw = unsafe { AnyValueRaw::new(NonNull::new_unchecked(op as *mut u8), size_of::<O>(), TypeId::of::<O>()) };
            let mut em = v.at_mut(idx);
            em.swap(&mut raw);
        }
        SwapPair::RawElemMut => {
            let mut raw = unsafe { AnyValueRaw::new(NonNull::new_unchecked(op as *mut u8), size_of::<O>(), TypeId::of::<O>()) };
            let mut em = v.at_mut(idx);
            raw.swap(&mut *em);
        }
        SwapPair::HandleWrapper => {
            let mut w = AnyValueWrapper::new(unsafe { core::ptr::read(op) });
            let mut h = v.remove(idx);
            h.swap(&mut w);
            unsafe { core::ptr::write(op, w.downcast::<O>().unwrap()) };
            // put it back: the swapped-in value is now the removed one
            core::mem::forget(h);
        }
        SwapPair::HandleRaw => {
            let mut raw = unsafe { AnyValueRaw::new(NonNull::new_unchecked(op as *mut u8), size_of::<O>(), TypeId::of::<O>()) };
            let mut h = v.remove(idx);
            h.swap(&mut raw);
            core::mem::forget(h);
        }
        SwapPair::ElemMutHandle => unreachable!(),
    };
    if same {
        act();
        // `other` now holds the old element idx; the vector holds NEW_ID there
        let o = unsafe { &*(op as *const V) };
        check_elem::<V>(o, m.id[idx], m.tag[idx]);
        match pair {
            SwapPair::HandleWrapper | SwapPair::HandleRaw => {
                // handle was forgotten: the vector was truncated at idx (documented leak); elements before idx intact
                vp_assert!(v.len() == idx, "VP: forgotten removal handle must leave the vector truncated at the index");
                m.len = idx;
                check_vec::<Tr, B, V>(&v, &m);
            }
            _ => {
                m.set(idx, NEW_ID, V::norm(1));
                check_vec::<Tr, B, V>(&v, &m);
            }
        }
    } else {
        must_panic("", act);
    }
    core::mem::forget(other);
    core::mem::forget(v);
    reached_end();
}

/// downcasts succeed exactly for the real type; type id / layout / size reports are the real ones,
/// for the vector and every handle kind
pub fn downcasts<Tr: ?Sized + Trait, B: Backend, V: Elem + SatisfyTraits<Tr>, O: Off>(p: crate::c01::P) {
    reset_all();
    let (mut v, mut m) = build::<Tr, B, V>(p.cap, p.len, 0);
    assume(m.len > 0);
    let idx = p.idx.get();
    assume(idx < m.len);
    let same = TypeId::of::<V>() == TypeId::of::<O>();
    vp_assert!(v.element_typeid() == TypeId::of::<V>(), "VP: element_typeid() is not the real element type");
    vp_assert!(v.element_layout() == Layout::new::<V>(), "VP: element_layout() is not the real element layout");
    vp_assert!(v.downcast_ref::<O>().is_some() == same, "VP: downcast_ref succeeds iff the type is the real one");
    vp_assert!(v.downcast_mut::<O>().is_some() == same, "VP: downcast_mut succeeds iff the type is the real one");
    vp_assert!(v.downcast_ref::<V>().is_some(), "VP: downcast_ref to the real type failed");
    {
        let r = v.at(idx);
        vp_assert!(r.value_typeid() == TypeId::of::<V>() && r.size() == size_of::<V>(), "VP: element reference misreports type id / size");
        vp_assert!(r.downcast_ref::<O>().is_some() == same, "VP: ElementRef::downcast_ref succeeds iff real type");
        vp_assert!(AnyValue::downcast_ref::<O>(&*r).is_some() == same, "VP: AnyValue::downcast_ref succeeds iff real type");
        vp_assert!(r.as_bytes().len() == size_of::<V>(), "VP: element byte view has wrong length");
    }
    {
        let mut r = v.at_mut(idx);
        vp_assert!(r.value_typeid() == TypeId::of::<V>() && r.size() == size_of::<V>(), "VP: mutable element reference misreports type id / size");
        vp_assert!(r.downcast_mut::<O>().is_some() == same, "VP: ElementMut::downcast_mut succeeds iff real type");
        vp_assert!(AnyValueMut::downcast_mut::<O>(&mut *r).is_some() == same, "VP: AnyValueMut::downcast_mut succeeds iff real type");
    }
    {
        let w = AnyValueWrapper::new(O::mk());
        vp_assert!(w.value_typeid() == TypeId::of::<O>() && w.size() == size_of::<O>(), "VP: AnyValueWrapper misreports type id / size");
        vp_assert!(w.downcast_ref::<V>().is_some() == same, "VP: AnyValueWrapper::downcast_ref succeeds iff real type");
        core::mem::forget(w);
    }
    // removal handle: a failed downcast consumes (and destroys) the handle like a plain drop
    {
        let h = v.remove(idx);
        vp_assert!(h.value_typeid() == TypeId::of::<V>() && h.size() == size_of::<V>(), "VP: removal handle misreports type id / size");
        vp_assert!(h.downcast_ref::<O>().is_some() == same, "VP: removal handle downcast_ref succeeds iff real type");
        let got = h.downcast::<O>();
        vp_assert!(got.is_some() == same, "VP: removal handle downcast succeeds iff real type");
        core::mem::forget(got);
        let _ = m.remove(idx);
        check_vec::<Tr, B, V>(&v, &m);
    }
    core::mem::forget(v);
    reached_end();
}

/// lazy clone handles report the source's type id / size and downcast only to the real type
pub fn downcasts_lazy<Tr: ?Sized + Trait + Cloneable, B: Backend, V: Elem + SatisfyTraits<Tr> + Clone, O: Off>(p: crate::c01::P) {
    reset_all();
    let (v, m) = build::<Tr, B, V>(p.cap, p.len, 0);
    assume(m.len > 0);
    let idx = p.idx.get();
    assume(idx < m.len);
    let same = TypeId::of::<V>() == TypeId::of::<O>();
    {
        let r = v.at(idx);
        let lc = r.lazy_clone();
        vp_assert!(lc.value_typeid() == TypeId::of::<V>() && lc.size() == size_of::<V>(), "VP: lazy clone misreports type id / size");
        let before = elems::total_clones();
        let got = lc.downcast::<O>();
        vp_assert!(got.is_some() == same, "VP: lazy clone downcast succeeds iff real type");
        vp_assert!(elems::total_clones() == before + if same { 1 } else { 0 }, "VP: lazy clone downcast clones exactly when it succeeds");
        core::mem::forget(got);
    }
    check_vec::<Tr, B, V>(&v, &m);
    core::mem::forget(v);
    reached_end();
}
