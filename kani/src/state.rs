//! Arbitrary-valid-state construction (no history is run) and whole-vector oracles.

use crate::backends::Backend;
use crate::elems::{self, Elem};
use crate::model::{check_slice, Model, MM};
use crate::sym::*;
use crate::vp_assert;
use any_vec::traits::Trait;
use any_vec::{AnyVec, SatisfyTraits};

/// id of values created by the harness and offered to the vector under test
pub const NEW_ID: u8 = 5;

/// Builds a vector in an arbitrary valid state: capacity `cap` (resizable backends) or the
/// backend's own, length `len <= capacity`, elements `base+0 .. base+len` with arbitrary payloads,
/// written directly through the typed view (`as_mut_ptr().write` + `set_len`).
pub fn build<Tr: ?Sized + Trait, B: Backend, E: Elem + SatisfyTraits<Tr>>(
    cap: Dim,
    len: Dim,
    base: u8,
) -> (AnyVec<Tr, B>, Model) {
    let lmax = len.max();
    let c = if B::RESIZABLE { cap.get() } else { 0 };
    let mut v: AnyVec<Tr, B> = B::mk::<Tr, E>(c);
    vp_assert!(v.len() == 0, "VP: fresh vector is not empty");
    vp_assert!(v.capacity() >= c, "VP: with_capacity gave less than requested");
    let n = len.get();
    assume(n <= v.capacity());
    let mut m = Model::new();
    {
        let mut t = v.downcast_mut::<E>().unwrap();
        let p = t.as_mut_ptr();
        let mut i = 0;
        while i < lmax {
            if i < n {
                let tag = any_u8();
                unsafe { p.add(i).write(E::make(base + i as u8, tag)) };
                m.push(base + i as u8, E::norm(tag));
            }
            i += 1;
        }
        unsafe { t.set_len(n) };
    }
    (v, m)
}

/// Whole-vector oracle against the model through the public API.
pub fn check_vec<Tr: ?Sized + Trait, B: Backend, E: Elem>(v: &AnyVec<Tr, B>, m: &Model) {
    vp_assert!(v.len() == m.len, "VP: len() differs from Vec model");
    vp_assert!(v.is_empty() == (m.len == 0), "VP: is_empty() inconsistent");
    vp_assert!(v.len() <= v.capacity(), "VP: len exceeds capacity");
    let t = v.downcast_ref::<E>();
    vp_assert!(t.is_some(), "VP: downcast_ref to the real element type failed");
    let t = t.unwrap();
    vp_assert!(t.as_ptr() as usize % core::mem::align_of::<E>() == 0, "VP: storage pointer is not aligned for the element type");
    check_slice::<E>(t.as_slice(), m);
}

/// After every vector and extracted value is gone: nothing tracked is alive, and everything
/// created was destroyed exactly once (`leaks_ok`: destroyed at most once).
pub fn check_all_gone<E: Elem>(leaks_ok: bool) {
    if E::ZST {
        unsafe {
            if core::mem::needs_drop::<E>() && !leaks_ok {
                vp_assert!(elems::ZLIVE == 0, "VP: zero-sized values leaked or over-destroyed");
                vp_assert!(elems::ZDROPS == elems::ZMADE, "VP: zero-sized drop count differs from created count");
            }
        }
        return;
    }
    if !E::TRACKED {
        return;
    }
    let k = any_u8();
    #[cfg(kani)]
    {
        check_id_gone(k, leaks_ok);
    }
    #[cfg(not(kani))]
    {
        let _ = k;
        for k in 0..elems::NID {
            check_id_gone(k as u8, leaks_ok);
        }
    }
}
fn check_id_gone(k: u8, leaks_ok: bool) {
    if leaks_ok {
        vp_assert!(elems::drops(k) <= elems::made(k), "VP: element destroyed more often than created");
        vp_assert!(elems::live(k) >= 0, "VP: negative live count");
    } else {
        vp_assert!(elems::live(k) == 0, "VP: element still alive after everything was dropped (leak)");
        vp_assert!(elems::drops(k) == elems::made(k), "VP: element not destroyed exactly once");
    }
}

/// Reset all harness-global state (native replay runs in one process).
pub fn reset_all() {
    elems::reset_registry();
    crate::fault::reset();
    crate::backends::reloc_reset();
}
