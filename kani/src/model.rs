//! Reference model: a fixed array plus length with the textbook semantics of
//! `Vec::{push,insert,pop,remove,swap_remove,clear,drain,splice}`. This is the oracle.
//! (`tests/model_vs_std.rs` checks it against `std::vec::Vec` natively.)

use crate::elems::{self, Elem};
use crate::sym::*;
use crate::vp_assert;

pub const MM: usize = 10;

#[derive(Clone, Copy, PartialEq, Eq, Debug)]
pub struct Model {
    pub id: [u8; MM],
    pub tag: [u8; MM],
    pub len: usize,
}

impl Model {
    pub const fn new() -> Self {
        Model { id: [0; MM], tag: [0; MM], len: 0 }
    }
    pub fn push(&mut self, id: u8, tag: u8) {
        self.id[self.len] = id;
        self.tag[self.len] = tag;
        self.len += 1;
    }
    pub fn insert(&mut self, at: usize, id: u8, tag: u8) {
        let mut k = MM - 1;
        while k > 0 {
            if k > at && k <= self.len {
                self.id[k] = self.id[k - 1];
                self.tag[k] = self.tag[k - 1];
            }
            k -= 1;
        }
        self.id[at] = id;
        self.tag[at] = tag;
        self.len += 1;
    }
    pub fn remove(&mut self, at: usize) -> (u8, u8) {
        let r = (self.id[at], self.tag[at]);
        let mut k = 0;
        while k + 1 < MM {
            if k >= at && k + 1 < self.len {
                self.id[k] = self.id[k + 1];
                self.tag[k] = self.tag[k + 1];
            }
            k += 1;
        }
        self.len -= 1;
        r
    }
    pub fn swap_remove(&mut self, at: usize) -> (u8, u8) {
        let r = (self.id[at], self.tag[at]);
        let last = self.len - 1;
        self.id[at] = self.id[last];
        self.tag[at] = self.tag[last];
        self.len -= 1;
        r
    }
    pub fn pop(&mut self) -> Option<(u8, u8)> {
        if self.len == 0 {
            None
        } else {
            self.len -= 1;
            Some((self.id[self.len], self.tag[self.len]))
        }
    }
    pub fn clear(&mut self) {
        self.len = 0;
    }
    /// remove `[s, e)` and put `n` replacement items (ids `rid[k]`, tags `rtag[k]`) in its place
    pub fn splice(&mut self, s: usize, e: usize, n: usize, rid: &[u8; 4], rtag: &[u8; 4]) {
        let old = *self;
        let tail = old.len - e;
        let mut k = 0;
        while k < MM {
            if k >= s && k < s + n {
                self.id[k] = rid[(k - s) & 3];
                self.tag[k] = rtag[(k - s) & 3];
            } else if k >= s + n && k < s + n + tail {
                self.id[k] = old.id[(k - n - s + e) % MM];
                self.tag[k] = old.tag[(k - n - s + e) % MM];
            }
            k += 1;
        }
        self.len = s + n + tail;
    }
    pub fn drain(&mut self, s: usize, e: usize) {
        self.splice(s, e, 0, &[0; 4], &[0; 4]);
    }
    pub fn set(&mut self, at: usize, id: u8, tag: u8) {
        self.id[at] = id;
        self.tag[at] = tag;
    }
    pub fn contains_id(&self, id: u8) -> bool {
        let mut k = 0;
        let mut f = false;
        while k < MM {
            if k < self.len && self.id[k] == id {
                f = true;
            }
            k += 1;
        }
        f
    }
}

/// element `e` must be the model's `(id, tag)`, intact and (for tracked types) live exactly once
#[inline(always)]
pub fn check_elem<E: Elem>(e: &E, id: u8, tag: u8) {
    if E::ZST {
        return;
    }
    vp_assert!(e.id() == id, "VP: element identity differs from Vec model");
    vp_assert!(e.tag() == tag, "VP: element payload differs from Vec model");
    vp_assert!(e.intact(), "VP: element bytes corrupted (canary)");
    if E::TRACKED {
        vp_assert!(elems::live(id) == 1, "VP: element visible in a vector is not live");
    }
}

/// The typed snapshot `s` of a vector must equal the model: same length, and the same element at
/// an arbitrary position (Kani: one solver-chosen position = all positions; native: every position).
pub fn check_slice<E: Elem>(s: &[E], m: &Model) {
    vp_assert!(s.len() == m.len, "VP: length differs from Vec model");
    let j = any_usize();
    #[cfg(kani)]
    {
        if j < m.len {
            check_elem(&s[j], m.id[j], m.tag[j]);
        }
    }
    #[cfg(not(kani))]
    {
        let _ = j;
        for j in 0..m.len {
            check_elem(&s[j], m.id[j], m.tag[j]);
        }
    }
}
