//! Element zoo: identity-tagged, self-checking element types of many layouts, and the
//! identity registry (live / dropped / cloned counters) updated by their own Drop / Clone.

use crate::fault;
use crate::vp_assert;

pub const NID: usize = 64;
pub const CLONE_STEP: u8 = 8;

pub static mut LIVE: [i8; NID] = [0; NID];
pub static mut DROPS: [u8; NID] = [0; NID];
pub static mut MADE: [u8; NID] = [0; NID];
/// clones made *from* the element with this id
pub static mut CLONES: [u8; NID] = [0; NID];
pub static mut TOTAL_CLONES: usize = 0;
pub static mut TOTAL_DROPS: usize = 0;
/// number of tracked (drop-glue) elements currently alive
pub static mut TOTAL_LIVE: isize = 0;
pub static mut ZLIVE: isize = 0;
pub static mut ZMADE: usize = 0;
pub static mut ZDROPS: usize = 0;

#[inline(always)]
pub fn ix(id: u8) -> usize {
    (id as usize) & (NID - 1)
}
pub fn live(id: u8) -> i8 {
    unsafe { LIVE[ix(id)] }
}
pub fn drops(id: u8) -> u8 {
    unsafe { DROPS[ix(id)] }
}
pub fn made(id: u8) -> u8 {
    unsafe { MADE[ix(id)] }
}
pub fn clones_from(id: u8) -> u8 {
    unsafe { CLONES[ix(id)] }
}
pub fn total_clones() -> usize {
    unsafe { TOTAL_CLONES }
}
pub fn total_drops() -> usize {
    unsafe { TOTAL_DROPS }
}

/// Native replay runs several harnesses in one process.
pub fn reset_registry() {
    unsafe {
        LIVE = [0; NID];
        DROPS = [0; NID];
        MADE = [0; NID];
        CLONES = [0; NID];
        TOTAL_CLONES = 0;
        TOTAL_DROPS = 0;
        TOTAL_LIVE = 0;
        ZLIVE = 0;
        ZMADE = 0;
        ZDROPS = 0;
    }
}

pub trait Elem: 'static + Sized {
    const NAME: &'static str;
    const ZST: bool = false;
    /// has drop glue and therefore a registry entry
    const TRACKED: bool;
    /// id base for elements of a second / third vector
    const YBASE: u8 = 32;
    fn make(id: u8, tag: u8) -> Self;
    fn id(&self) -> u8;
    fn tag(&self) -> u8;
    fn set_tag(&mut self, tag: u8);
    fn intact(&self) -> bool;
    /// what `tag()` reports for an element made with `tag`
    fn norm(tag: u8) -> u8 {
        tag
    }
}

#[inline(always)]
fn canary(tag: u8, k: usize) -> u8 {
    tag ^ 0x5A ^ (k as u8).wrapping_mul(7)
}

macro_rules! elem_common {
    ($name:ident, $pad:literal) => {
        impl $name {
            #[inline(always)]
            fn raw(id: u8, tag: u8) -> Self {
                let mut pad = [0u8; $pad];
                let mut k = 0;
                while k < ($pad as usize) {
                    pad[k] = canary(tag, k);
                    k += 1;
                }
                $name { id, tag, pad }
            }
            #[inline(always)]
            fn pad_ok(&self) -> bool {
                if $pad == 0 {
                    return true;
                }
                if $pad <= 6 {
                    let mut k = 0;
                    let mut ok = true;
                    while k < ($pad as usize) {
                        ok &= self.pad[k] == canary(self.tag, k);
                        k += 1;
                    }
                    ok
                } else {
                    let p: &[u8] = &self.pad;
                    let n = p.len();
                    p[0] == canary(self.tag, 0)
                        && p[n / 2] == canary(self.tag, n / 2)
                        && p[n - 1] == canary(self.tag, n - 1)
                        && p[n - 2] == canary(self.tag, n - 2)
                }
            }
        }
    };
}

macro_rules! elem_plain {
    ($name:ident, $al:literal, $pad:literal) => {
        #[repr(C, align($al))]
        pub struct $name {
            id: u8,
            tag: u8,
            pad: [u8; $pad],
        }
        elem_common!($name, $pad);
        impl Elem for $name {
            const NAME: &'static str = stringify!($name);
            const TRACKED: bool = false;
            #[inline(always)]
            fn make(id: u8, tag: u8) -> Self {
                Self::raw(id, tag)
            }
            #[inline(always)]
            fn id(&self) -> u8 {
                self.id
            }
            #[inline(always)]
            fn tag(&self) -> u8 {
                self.tag
            }
            #[inline(always)]
            fn set_tag(&mut self, tag: u8) {
                *self = Self::raw(self.id, tag);
            }
            #[inline(always)]
            fn intact(&self) -> bool {
                self.pad_ok()
            }
        }
        impl Clone for $name {
            fn clone(&self) -> Self {
                unsafe {
                    CLONES[ix(self.id)] = CLONES[ix(self.id)].wrapping_add(1);
                    TOTAL_CLONES += 1;
                }
                fault::tick();
                // the n-th clone made from this element gets id + n * CLONE_STEP (distinct identities)
                let n = unsafe { CLONES[ix(self.id)] };
                Self::raw(self.id.wrapping_add(CLONE_STEP.wrapping_mul(n)), self.tag)
            }
        }
    };
}

macro_rules! elem_drop {
    ($name:ident, $al:literal, $pad:literal) => {
        #[repr(C, align($al))]
        pub struct $name {
            id: u8,
            tag: u8,
            pad: [u8; $pad],
        }
        elem_common!($name, $pad);
        impl Elem for $name {
            const NAME: &'static str = stringify!($name);
            const TRACKED: bool = true;
            #[inline(always)]
            fn make(id: u8, tag: u8) -> Self {
                unsafe {
                    LIVE[ix(id)] += 1;
                    TOTAL_LIVE += 1;
                    MADE[ix(id)] = MADE[ix(id)].wrapping_add(1);
                }
                Self::raw(id, tag)
            }
            #[inline(always)]
            fn id(&self) -> u8 {
                self.id
            }
            #[inline(always)]
            fn tag(&self) -> u8 {
                self.tag
            }
            #[inline(always)]
            fn set_tag(&mut self, tag: u8) {
                self.tag = tag;
                let mut k = 0;
                while k < ($pad as usize) {
                    self.pad[k] = canary(tag, k);
                    k += 1;
                }
            }
            #[inline(always)]
            fn intact(&self) -> bool {
                self.pad_ok()
            }
        }
        impl Clone for $name {
            fn clone(&self) -> Self {
                unsafe {
                    CLONES[ix(self.id)] = CLONES[ix(self.id)].wrapping_add(1);
                    TOTAL_CLONES += 1;
                }
                fault::tick();
                let n = unsafe { CLONES[ix(self.id)] };
                Self::make(self.id.wrapping_add(CLONE_STEP.wrapping_mul(n)), self.tag)
            }
        }
        impl Drop for $name {
            fn drop(&mut self) {
                unsafe {
                    let i = ix(self.id);
                    vp_assert!(LIVE[i] == 1, "VP: destructor ran on an element that is not live (double drop or garbage)");
                    vp_assert!(self.pad_ok(), "VP: destructor ran on a corrupted element");
                    LIVE[i] -= 1;
                    TOTAL_LIVE -= 1;
                    DROPS[i] = DROPS[i].wrapping_add(1);
                    TOTAL_DROPS += 1;
                }
                fault::tick();
            }
        }
    };
}

// name, align, pad  (size = round_up(2 + pad, align))
elem_plain!(H2, 2, 0);
elem_plain!(F4, 1, 2);   // 4 bytes, align 1: power-of-two size larger than the alignment
elem_drop!(P8D, 2, 6);  // 8 bytes, align 2, drop glue
elem_drop!(B3D, 1, 1);
elem_plain!(W8, 8, 6);
elem_drop!(W8D, 8, 6);
elem_plain!(T12, 4, 10);
elem_plain!(Q16, 16, 14);
elem_drop!(D24D, 8, 22);
elem_plain!(A32, 32, 30);
elem_plain!(A64, 64, 62);
elem_drop!(L160D, 8, 158);

/// 1 byte, align 1: id in the low nibble, tag in the high nibble.
pub struct B1(u8);
impl Elem for B1 {
    const NAME: &'static str = "B1";
    const TRACKED: bool = false;
    const YBASE: u8 = 8;
    #[inline(always)]
    fn make(id: u8, tag: u8) -> Self {
        B1((id & 0xF) | (tag << 4))
    }
    #[inline(always)]
    fn id(&self) -> u8 {
        self.0 & 0xF
    }
    #[inline(always)]
    fn tag(&self) -> u8 {
        self.0 >> 4
    }
    #[inline(always)]
    fn set_tag(&mut self, tag: u8) {
        self.0 = (self.0 & 0xF) | (tag << 4);
    }
    #[inline(always)]
    fn intact(&self) -> bool {
        true
    }
    fn norm(tag: u8) -> u8 {
        tag & 0xF
    }
}
impl Clone for B1 {
    fn clone(&self) -> Self {
        unsafe {
            CLONES[ix(self.id())] = CLONES[ix(self.id())].wrapping_add(1);
            TOTAL_CLONES += 1;
        }
        fault::tick();
        let n = unsafe { CLONES[ix(self.id())] };
        B1::make(self.id().wrapping_add(CLONE_STEP.wrapping_mul(n)), self.tag())
    }
}

/// zero-sized, no drop glue
pub struct Z0;
impl Elem for Z0 {
    const NAME: &'static str = "Z0";
    const ZST: bool = true;
    const TRACKED: bool = false;
    fn make(_: u8, _: u8) -> Self {
        unsafe {
            ZMADE += 1;
        }
        Z0
    }
    fn id(&self) -> u8 {
        0
    }
    fn tag(&self) -> u8 {
        0
    }
    fn set_tag(&mut self, _: u8) {}
    fn intact(&self) -> bool {
        true
    }
    fn norm(_: u8) -> u8 {
        0
    }
}
impl Clone for Z0 {
    fn clone(&self) -> Self {
        unsafe {
            TOTAL_CLONES += 1;
        }
        fault::tick();
        Z0::make(0, 0)
    }
}

/// zero-sized with drop glue: accounting by count
pub struct Z0D;
impl Elem for Z0D {
    const NAME: &'static str = "Z0D";
    const ZST: bool = true;
    const TRACKED: bool = false;
    fn make(_: u8, _: u8) -> Self {
        unsafe {
            ZMADE += 1;
            ZLIVE += 1;
        }
        Z0D
    }
    fn id(&self) -> u8 {
        0
    }
    fn tag(&self) -> u8 {
        0
    }
    fn set_tag(&mut self, _: u8) {}
    fn intact(&self) -> bool {
        true
    }
    fn norm(_: u8) -> u8 {
        0
    }
}
impl Clone for Z0D {
    fn clone(&self) -> Self {
        unsafe {
            TOTAL_CLONES += 1;
        }
        fault::tick();
        Z0D::make(0, 0)
    }
}
impl Drop for Z0D {
    fn drop(&mut self) {
        unsafe {
            vp_assert!(ZLIVE > 0, "VP: more zero-sized values destroyed than created");
            ZLIVE -= 1;
            ZDROPS += 1;
            TOTAL_DROPS += 1;
        }
        fault::tick();
    }
}
