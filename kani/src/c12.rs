//! C12 – byte and slice views, alignment;  C13 – element handles and view coherence;
//! C14 – iterator protocol.

use crate::backends::Backend;
use crate::c02::{fill_slots, mk_range, Rep, RepT, RMAX};
use crate::elems::{self, Elem};
use crate::model::*;
use crate::state::*;
use crate::sym::*;
use crate::vp_assert;
use any_vec::any_value::*;
use any_vec::traits::Trait;
use any_vec::{AnyVec, SatisfyTraits};
use core::any::TypeId;
use core::marker::PhantomData;
use core::mem::{align_of, size_of, MaybeUninit};

#[repr(C, align(64))]
pub struct Arena<const N: usize>(pub [MaybeUninit<u8>; N]);

/// small on purpose: CBMC prints the whole (nondeterministic) arena in every trace it emits, and kani-driver keeps
/// those traces in memory (2 KiB arenas drove kani-driver itself to 40 GB)
pub const ARENA: usize = 512;

/// Moves `v` to offset `k * align_of::<T>()` inside a 64-aligned arena and returns it by reference
/// (`k` concrete per query, enumerated by the driver: a symbolic offset makes the move of the whole vector
/// object a symbolic-offset memcpy, which does not finish).
fn place<'a, T>(arena: &'a mut Arena<ARENA>, v: T, k: Dim) -> &'a mut T {
    let a = align_of::<T>();
    let off = k.get() * a;
    vp_assert!(off + size_of::<T>() <= ARENA, "VP: harness arena too small");
    unsafe {
        let p = (arena.0.as_mut_ptr() as *mut u8).add(off) as *mut T;
        p.write(v);
        &mut *p
    }
}

#[derive(Copy, Clone, Debug, PartialEq, Eq)]
pub enum SpareVia {
    None,
    TypedSpare,
    ByteSpare,
}

/// views and alignment from an arbitrary (len, capacity) state, the vector placed anywhere admissible
pub fn views_h<Tr: ?Sized + Trait, B: Backend, E: Elem + SatisfyTraits<Tr>>(p: crate::c01::P, via: SpareVia) {
    reset_all();
    let (v0, mut m) = build::<Tr, B, E>(p.cap, p.len, 0);
    let mut arena: Arena<ARENA> = Arena(unsafe { MaybeUninit::uninit().assume_init() });
    // inline (fixed-capacity) storage moves with the vector object: place it; heap storage does not
    let mut md = core::mem::ManuallyDrop::new(v0);
    let v: &mut AnyVec<Tr, B> = if B::RESIZABLE {
        &mut *md
    } else {
        place(&mut arena, unsafe { core::mem::ManuallyDrop::take(&mut md) }, p.idx2)
    };
    let (len, cap, size, al) = (m.len, v.capacity(), size_of::<E>(), align_of::<E>());
    let base = v.downcast_ref::<E>().unwrap().as_ptr() as usize;
    vp_assert!(base % al == 0, "VP: storage pointer is not aligned for the element type");
    vp_assert!(base != 0, "VP: storage pointer is null");
    {
        let b = v.as_bytes();
        vp_assert!(b.as_ptr() as usize == base, "VP: as_bytes does not start at the storage base");
        vp_assert!(b.len() == len * size, "VP: as_bytes length is not len x size");
    }
    {
        let b = v.as_bytes_mut();
        vp_assert!(b.as_ptr() as usize == base, "VP: as_bytes_mut does not start at the storage base");
        vp_assert!(b.len() == len * size, "VP: as_bytes_mut length is not len x size");
    }
    {
        let sb = v.spare_bytes_mut();
        vp_assert!(sb.as_ptr() as usize == base + len * size, "VP: spare_bytes_mut does not start right after the initialised elements");
        if !E::ZST {
            vp_assert!(sb.len() == (cap - len) * size, "VP: spare_bytes_mut length is not (capacity - len) x size");
        } else {
            vp_assert!(sb.len() == 0, "VP: spare_bytes_mut of a zero-sized element type must be empty");
        }
    }
    {
        let mut t = v.downcast_mut::<E>().unwrap();
        vp_assert!(t.as_slice().as_ptr() as usize == base && t.as_slice().len() == len, "VP: typed slice does not alias the elements");
        vp_assert!(t.as_mut_slice().as_ptr() as usize == base && t.as_mut_slice().len() == len, "VP: typed mutable slice does not alias the elements");
        vp_assert!(t.as_mut_ptr() as usize == base, "VP: typed as_mut_ptr differs from as_ptr");
        let sp = t.spare_capacity_mut();
        vp_assert!(sp.as_ptr() as usize == base + len * size, "VP: spare_capacity_mut does not start at element len");
        vp_assert!(sp.len() == cap - len, "VP: spare_capacity_mut length is not capacity - len");
        vp_assert!(t.len() == len && t.capacity() == cap, "VP: typed len()/capacity() differ from the erased ones");
    }
    match via {
        SpareVia::None => {}
        SpareVia::TypedSpare => {
            assume(len < cap);
            let tag = any_u8();
            let mut t = v.downcast_mut::<E>().unwrap();
            t.spare_capacity_mut()[0].write(E::make(NEW_ID, tag));
            unsafe { t.set_len(len + 1) };
            m.push(NEW_ID, E::norm(tag));
        }
        SpareVia::ByteSpare => {
            assume(len < cap);
            let tag = any_u8();
            let val = E::make(NEW_ID, tag);
            {
                let sb = v.spare_bytes_mut();
                vp_assert!(sb.len() >= size, "VP: spare bytes shorter than one element although len < capacity");
                unsafe { core::ptr::copy_nonoverlapping(&val as *const E as *const u8, sb.as_mut_ptr() as *mut u8, size) };
            }
            core::mem::forget(val);
            unsafe { v.set_len(len + 1) };
            m.push(NEW_ID, E::norm(tag));
        }
    }
    check_vec::<Tr, B, E>(v, &m);
    unsafe { core::ptr::drop_in_place(v as *mut AnyVec<Tr, B>) };
    check_all_gone::<E>(false);
    reached_end();
}

/// a typed push / read on a vector placed anywhere admissible (core's ub_checks flag misaligned typed access)
pub fn aligned_use_h<Tr: ?Sized + Trait, B: Backend, E: Elem + SatisfyTraits<Tr>>(p: crate::c01::P) {
    reset_all();
    let (v0, mut m) = build::<Tr, B, E>(p.cap, p.len, 0);
    let mut arena: Arena<ARENA> = Arena(unsafe { MaybeUninit::uninit().assume_init() });
    let mut md = core::mem::ManuallyDrop::new(v0);
    let v: &mut AnyVec<Tr, B> = if B::RESIZABLE {
        &mut *md
    } else {
        place(&mut arena, unsafe { core::mem::ManuallyDrop::take(&mut md) }, p.idx2)
    };
    if !B::RESIZABLE {
        assume(m.len < v.capacity());
    }
    let tag = any_u8();
    v.downcast_mut::<E>().unwrap().push(E::make(NEW_ID, tag));
    m.push(NEW_ID, E::norm(tag));
    let base = v.downcast_ref::<E>().unwrap().as_ptr() as usize;
    vp_assert!(base % align_of::<E>() == 0, "VP: storage pointer is not aligned for the element type");
    check_vec::<Tr, B, E>(v, &m);
    unsafe { core::ptr::drop_in_place(v as *mut AnyVec<Tr, B>) };
    check_all_gone::<E>(false);
    reached_end();
}

// ------------------------------------------------------------------------------- C13
#[derive(Copy, Clone, Debug, PartialEq, Eq)]
pub enum Acc {
    Get,
    At,
    GetMut,
    AtMut,
    IterNth,
    IterMutNth,
    TGet,
    TAt,
    TGetMut,
    TAtMut,
    TIterNth,
}

/// accessor `acc` at index `i < len` refers to precisely element `i` and reports its true type id / size / bytes
pub fn handle_h<Tr: ?Sized + Trait, B: Backend, E: Elem + SatisfyTraits<Tr>>(p: crate::c01::P, acc: Acc) {
    reset_all();
    let (mut v, m) = build::<Tr, B, E>(p.cap, p.len, 0);
    let i = p.idx.get();
    assume(i < m.len);
    let base = v.downcast_ref::<E>().unwrap().as_ptr() as usize;
    let want = base + i * size_of::<E>();
    macro_rules! chk_erased {
        ($r:expr) => {{
            let r = $r;
            vp_assert!(r.as_bytes_ptr() as usize == want, "VP: element handle does not address element i");
            vp_assert!(r.value_typeid() == TypeId::of::<E>(), "VP: element handle reports wrong type id");
            vp_assert!(r.size() == size_of::<E>(), "VP: element handle reports wrong size");
            vp_assert!(r.as_bytes().len() == size_of::<E>() && r.as_bytes().as_ptr() as usize == want, "VP: element handle byte view is not the element's bytes");
            let d = r.downcast_ref::<E>();
            vp_assert!(d.is_some(), "VP: element handle downcast_ref to the real type failed");
            check_elem::<E>(d.unwrap(), m.id[i], m.tag[i]);
        }};
    }
    macro_rules! chk_typed {
        ($r:expr) => {{
            let r: &E = $r;
            vp_assert!(r as *const E as usize == want, "VP: typed accessor does not address element i");
            check_elem::<E>(r, m.id[i], m.tag[i]);
        }};
    }
    match acc {
        Acc::Get => {
            let o = v.get(i);
            vp_assert!(o.is_some(), "VP: get(i) returned None for i < len");
            chk_erased!(o.unwrap())
        }
        Acc::At => chk_erased!(v.at(i)),
        Acc::GetMut => {
            let o = v.get_mut(i);
            vp_assert!(o.is_some(), "VP: get_mut(i) returned None for i < len");
            chk_erased!(o.unwrap())
        }
        Acc::AtMut => chk_erased!(v.at_mut(i)),
        Acc::IterNth => {
            let mut it = v.iter();
            let mut k = 0;
            while k < MM {
                if k < i {
                    let _ = it.next();
                }
                k += 1;
            }
            let o = it.next();
            vp_assert!(o.is_some(), "VP: iter() ended before element i");
            chk_erased!(o.unwrap())
        }
        Acc::IterMutNth => {
            let mut it = v.iter_mut();
            let mut k = 0;
            while k < MM {
                if k < i {
                    let _ = it.next();
                }
                k += 1;
            }
            let o = it.next();
            vp_assert!(o.is_some(), "VP: iter_mut() ended before element i");
            chk_erased!(o.unwrap())
        }
        Acc::TGet => {
            let t = v.downcast_ref::<E>().unwrap();
            let o = t.get(i);
            vp_assert!(o.is_some(), "VP: typed get(i) returned None for i < len");
            chk_typed!(o.unwrap())
        }
        Acc::TAt => chk_typed!(v.downcast_ref::<E>().unwrap().at(i)),
        Acc::TGetMut => {
            let mut t = v.downcast_mut::<E>().unwrap();
            let o = t.get_mut(i);
            vp_assert!(o.is_some(), "VP: typed get_mut(i) returned None for i < len");
            chk_typed!(&*o.unwrap())
        }
        Acc::TAtMut => chk_typed!(&*v.downcast_mut::<E>().unwrap().at_mut(i)),
        Acc::TIterNth => {
            let t = v.downcast_ref::<E>().unwrap();
            let mut it = t.iter();
            let mut k = 0;
            while k < MM {
                if k < i {
                    let _ = it.next();
                }
                k += 1;
            }
            let o = it.next();
            vp_assert!(o.is_some(), "VP: typed iter() ended before element i");
            chk_typed!(o.unwrap())
        }
    }
    check_vec::<Tr, B, E>(&v, &m);
    drop(v);
    check_all_gone::<E>(false);
    reached_end();
}

#[derive(Copy, Clone, Debug, PartialEq, Eq)]
pub enum Wr {
    ElemMutDowncast,
    ElemMutBytes,
    TypedAtMut,
    TypedSlice,
    TypedIterMut,
    VecBytes,
    IterMutDowncast,
}
#[derive(Copy, Clone, Debug, PartialEq, Eq)]
pub enum Rd {
    ElemRef,
    ElemRefBytes,
    TypedSlice,
    VecBytes,
    Iter,
}

/// a mutation of element `i` through view kind `w` is seen through view kind `r` and changes no other element
pub fn coherence_h<Tr: ?Sized + Trait, B: Backend, E: Elem + SatisfyTraits<Tr>>(p: crate::c01::P, w: Wr, r: Rd) {
    reset_all();
    let (mut v, mut m) = build::<Tr, B, E>(p.cap, p.len, 0);
    let i = p.idx.get();
    assume(i < m.len);
    let t2 = any_u8();
    let size = size_of::<E>();
    match w {
        Wr::ElemMutDowncast => {
            let mut e = v.at_mut(i);
            e.downcast_mut::<E>().unwrap().set_tag(t2);
        }
        Wr::IterMutDowncast => {
            let mut it = v.iter_mut();
            let mut k = 0;
            while k < MM {
                if k < i {
                    let _ = it.next();
                }
                k += 1;
            }
            let mut e = it.next().unwrap();
            e.downcast_mut::<E>().unwrap().set_tag(t2);
        }
        Wr::ElemMutBytes => {
            // overwrite the element's bytes with the image of the same element carrying the new payload
            let mut img = unsafe { core::ptr::read(v.at(i).downcast_ref::<E>().unwrap() as *const E) };
            img.set_tag(t2);
            let mut e = v.at_mut(i);
            let b = e.as_bytes_mut();
            vp_assert!(b.len() == size, "VP: element byte view has wrong length");
            unsafe { core::ptr::copy_nonoverlapping(&img as *const E as *const u8, b.as_mut_ptr(), size) };
            core::mem::forget(img);
        }
        Wr::VecBytes => {
            let mut img = unsafe { core::ptr::read(v.at(i).downcast_ref::<E>().unwrap() as *const E) };
            img.set_tag(t2);
            let b = v.as_bytes_mut();
            vp_assert!(b.len() >= (i + 1) * size, "VP: vector byte view shorter than the elements");
            unsafe { core::ptr::copy_nonoverlapping(&img as *const E as *const u8, b.as_mut_ptr().add(i * size), size) };
            core::mem::forget(img);
        }
        Wr::TypedAtMut => {
            v.downcast_mut::<E>().unwrap().at_mut(i).set_tag(t2);
        }
        Wr::TypedSlice => {
            v.downcast_mut::<E>().unwrap().as_mut_slice()[i].set_tag(t2);
        }
        Wr::TypedIterMut => {
            let mut t = v.downcast_mut::<E>().unwrap();
            let mut it = t.iter_mut();
            let mut k = 0;
            while k < MM {
                if k < i {
                    let _ = it.next();
                }
                k += 1;
            }
            it.next().unwrap().set_tag(t2);
        }
    }
    m.tag[i] = E::norm(t2);
    let j = any_usize();
    assume(j < m.len);
    match r {
        Rd::ElemRef => {
            let e = v.at(j);
            check_elem::<E>(e.downcast_ref::<E>().unwrap(), m.id[j], m.tag[j]);
        }
        Rd::ElemRefBytes => {
            let e = v.at(j);
            let b = e.as_bytes();
            let x = unsafe { &*(b.as_ptr() as *const E) };
            check_elem::<E>(x, m.id[j], m.tag[j]);
        }
        Rd::TypedSlice => {
            let t = v.downcast_ref::<E>().unwrap();
            check_elem::<E>(&t.as_slice()[j], m.id[j], m.tag[j]);
        }
        Rd::VecBytes => {
            let b = v.as_bytes();
            vp_assert!(b.len() == m.len * size, "VP: as_bytes length is not len x size");
            let x = unsafe { &*(b.as_ptr().add(j * size) as *const E) };
            check_elem::<E>(x, m.id[j], m.tag[j]);
        }
        Rd::Iter => {
            let mut it = v.iter();
            let mut k = 0;
            while k < MM {
                if k < j {
                    let _ = it.next();
                }
                k += 1;
            }
            let e = it.next().unwrap();
            check_elem::<E>(e.downcast_ref::<E>().unwrap(), m.id[j], m.tag[j]);
        }
    }
    check_vec::<Tr, B, E>(&v, &m);
    drop(v);
    check_all_gone::<E>(false);
    reached_end();
}

/// a mutation through a removal handle before it is consumed travels with the value
pub fn handle_mutation_h<Tr: ?Sized + Trait, B: Backend, BY: Backend, E: Elem + SatisfyTraits<Tr>>(p: crate::c01::P, op: u8) {
    reset_all();
    let (mut v, mut m) = build::<Tr, B, E>(p.cap, p.len, 0);
    let (mut y, mut my) = build::<Tr, BY, E>(p.cap2, p.len2, E::YBASE);
    let i = p.idx.get();
    assume(i < m.len);
    if !BY::RESIZABLE {
        assume(my.len < y.capacity());
    }
    let t2 = any_u8();
    macro_rules! through {
        ($h:expr) => {{
            let mut h = $h;
            vp_assert!(h.as_bytes_ptr() as usize != 0, "VP: handle pointer null");
            vp_assert!(h.value_typeid() == TypeId::of::<E>(), "VP: removal handle reports wrong type id");
            vp_assert!(h.size() == size_of::<E>(), "VP: removal handle reports wrong size");
            vp_assert!(h.as_bytes().len() == size_of::<E>() && h.as_bytes().as_ptr() as usize == h.as_bytes_ptr() as usize, "VP: removal handle byte view is not the element's bytes");
            let shared = h.as_bytes_ptr() as usize;
            vp_assert!(h.as_bytes_mut().len() == size_of::<E>() && h.as_bytes_mut().as_ptr() as usize == shared, "VP: removal handle mutable byte view is not the element's bytes");
            vp_assert!(h.downcast_mut::<E>().unwrap() as *mut E as usize == shared, "VP: removal handle downcast_mut does not address the element");
            h.downcast_mut::<E>().unwrap().set_tag(t2);
            y.push(h);
        }};
    }
    let id = match op {
        0 => {
            through!(v.swap_remove(i));
            m.swap_remove(i).0
        }
        1 => {
            through!(v.remove(i));
            m.remove(i).0
        }
        _ => {
            through!(v.pop().unwrap());
            m.pop().unwrap().0
        }
    };
    my.push(id, E::norm(t2));
    check_vec::<Tr, B, E>(&v, &m);
    check_vec::<Tr, BY, E>(&y, &my);
    drop(v);
    drop(y);
    check_all_gone::<E>(false);
    reached_end();
}

// ------------------------------------------------------------------------------- C14
#[derive(Copy, Clone, Debug, PartialEq, Eq)]
pub enum It {
    Iter,
    IterMut,
    Drain,
    Splice,
    TIter,
    TIterMut,
    TDrain,
    TSplice,
}

/// `steps` calls, each a solver-chosen `next` / `next_back`; size_hint()/len() exact at every step,
/// front items ascending, back items descending, each element once, fused after exhaustion.
macro_rules! protocol {
    ($it:expr, $m:expr, $s:expr, $e:expr, $steps:expr, $get:expr) => {{
        let mut lo = $s;
        let mut hi = $e;
        let mut k = 0;
        while k < $steps {
            let rem = hi - lo;
            let sh = $it.size_hint();
            vp_assert!(sh.0 == rem && sh.1 == Some(rem), "VP: size_hint() is not (remaining, Some(remaining))");
            vp_assert!($it.len() == rem, "VP: len() is not the number of items still to come");
            if any_bool() {
                let o = $it.next();
                if rem == 0 {
                    vp_assert!(o.is_none(), "VP: next() yielded an item after exhaustion (not fused)");
                } else {
                    vp_assert!(o.is_some(), "VP: next() returned None although items remain");
                    let (id, tag) = $get(o.unwrap());
                    vp_assert!(id == $m.id[lo] && tag == $m.tag[lo], "VP: next() did not yield the front-most remaining element");
                    lo += 1;
                }
            } else {
                let o = $it.next_back();
                if rem == 0 {
                    vp_assert!(o.is_none(), "VP: next_back() yielded an item after exhaustion (not fused)");
                } else {
                    vp_assert!(o.is_some(), "VP: next_back() returned None although items remain");
                    let (id, tag) = $get(o.unwrap());
                    vp_assert!(id == $m.id[hi - 1] && tag == $m.tag[hi - 1], "VP: next_back() did not yield the back-most remaining element");
                    hi -= 1;
                }
            }
            k += 1;
        }
        (lo, hi)
    }};
}

pub fn iter_h<Tr: ?Sized + Trait, B: Backend, E: Elem + SatisfyTraits<Tr>>(p: crate::c02::P2, which: It, steps: usize) {
    reset_all();
    let (mut v, mut m) = build::<Tr, B, E>(p.cap, p.len, 0);
    let len = m.len;
    let ranged = matches!(which, It::Drain | It::Splice | It::TDrain | It::TSplice);
    let (s, e) = if ranged {
        let s = p.start.get();
        let e = p.end.get();
        assume(s <= e && e <= len);
        (s, e)
    } else {
        (0, len)
    };
    let mut slots: [MaybeUninit<E>; RMAX] = unsafe { MaybeUninit::uninit().assume_init() };
    let sp = slots.as_mut_ptr() as *mut E;
    let er = |x: &E| (x.id(), x.tag());
    match which {
        It::Iter => {
            let mut it = v.iter();
            // a clone taken at a solver-chosen step advances independently of the original
            let pre = any_usize();
            assume(pre <= 2);
            let (lo0, hi0) = protocol!(it, m, s, e, pre, |x: any_vec::element::ElementRef<'_, Tr, B>| er(x.downcast_ref::<E>().unwrap()));
            let mut c = it.clone();
            let _ = protocol!(it, m, lo0, hi0, steps, |x: any_vec::element::ElementRef<'_, Tr, B>| er(x.downcast_ref::<E>().unwrap()));
            vp_assert!(c.len() == hi0 - lo0, "VP: cloned iterator was advanced by the original");
            let _ = protocol!(c, m, lo0, hi0, steps, |x: any_vec::element::ElementRef<'_, Tr, B>| er(x.downcast_ref::<E>().unwrap()));
        }
        It::IterMut => {
            let mut it = v.iter_mut();
            let _ = protocol!(it, m, s, e, steps, |x: any_vec::element::ElementMut<'_, Tr, B>| er(x.downcast_ref::<E>().unwrap()));
        }
        It::Drain => {
            let mut it = v.drain(s..e);
            let _ = protocol!(it, m, s, e, steps, |x: any_vec::element::Element<'_, Tr, B>| {
                let r = er(x.downcast_ref::<E>().unwrap());
                core::mem::forget(x);
                r
            });
            core::mem::forget(it);
        }
        It::Splice => {
            let mut it = v.splice(s..e, Rep::<E, false> { slots: sp, n: 0, k: 0, delta: 0, ph: PhantomData });
            let _ = protocol!(it, m, s, e, steps, |x: any_vec::element::Element<'_, Tr, B>| {
                let r = er(x.downcast_ref::<E>().unwrap());
                core::mem::forget(x);
                r
            });
            core::mem::forget(it);
        }
        It::TIter => {
            let t = v.downcast_ref::<E>().unwrap();
            let mut it = t.iter();
            let _ = protocol!(it, m, s, e, steps, |x: &E| er(x));
        }
        It::TIterMut => {
            let mut t = v.downcast_mut::<E>().unwrap();
            let mut it = t.iter_mut();
            let _ = protocol!(it, m, s, e, steps, |x: &mut E| er(&*x));
        }
        It::TDrain => {
            let mut t = v.downcast_mut::<E>().unwrap();
            let mut it = t.drain(s..e);
            let _ = protocol!(it, m, s, e, steps, |x: E| {
                let r = er(&x);
                core::mem::forget(x);
                r
            });
            core::mem::forget(it);
        }
        It::TSplice => {
            let mut t = v.downcast_mut::<E>().unwrap();
            let mut it = t.splice(s..e, RepT::<E> { slots: sp, n: 0, k: 0, delta: 0 });
            let _ = protocol!(it, m, s, e, steps, |x: E| {
                let r = er(&x);
                core::mem::forget(x);
                r
            });
            core::mem::forget(it);
        }
    }
    // iterators over a range were leaked on purpose (their Drop is C02's subject): only the prefix is defined
    if ranged {
        vp_assert!(v.len() == s, "VP: leaked range iterator must leave the vector truncated at the range start");
    } else {
        check_vec::<Tr, B, E>(&v, &m);
    }
    core::mem::forget(v);
    reached_end();
}
