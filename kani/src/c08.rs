//! C08 – clone / clone_empty / clone_empty_in;  C09 – lazy clones.

use crate::backends::Backend;
use crate::elems::{self, Elem, CLONE_STEP};
use crate::model::*;
use crate::state::*;
use crate::sym::*;
use crate::vp_assert;
use any_vec::any_value::*;
use any_vec::traits::{Cloneable, Trait};
use any_vec::{AnyVec, SatisfyTraits};
use core::alloc::Layout;
use core::any::TypeId;

fn cloned_model(m: &Model, step: u8) -> Model {
    let mut c = *m;
    let mut k = 0;
    while k < MM {
        c.id[k] = c.id[k].wrapping_add(step);
        k += 1;
    }
    c
}

#[derive(Copy, Clone, Debug, PartialEq, Eq)]
pub enum After {
    Nothing,
    PushOrig,
    PushClone,
    RemoveOrig,
    RemoveClone,
    MutateOrig,
    MutateClone,
    ClearOrig,
    ClearClone,
}

/// clone() from an arbitrary state: same type/layout/len, element i is a clone of source element i
/// (each source element cloned exactly once), separately owned storage; then one operation on either
/// vector leaves the other unchanged.
pub fn clone_h<Tr: ?Sized + Trait + Cloneable, B: Backend, E: Elem + SatisfyTraits<Tr>>(p: crate::c01::P, after: After) {
    reset_all();
    let (mut v, mut m) = build::<Tr, B, E>(p.cap, p.len, 0);
    let n = m.len;
    let mut c = v.clone();
    let mut mc = cloned_model(&m, CLONE_STEP);
    vp_assert!(c.element_typeid() == TypeId::of::<E>(), "VP: clone has a different element type id");
    vp_assert!(c.element_layout() == Layout::new::<E>(), "VP: clone has a different element layout");
    vp_assert!(c.len() == n, "VP: clone has a different length");
    vp_assert!(elems::total_clones() == n, "VP: clone() must clone each element exactly once");
    if !E::ZST {
        let k = any_usize();
        if k < n {
            vp_assert!(elems::clones_from(m.id[k]) == 1, "VP: a source element was not cloned exactly once");
        }
        // separately owned storage
        let po = v.downcast_ref::<E>().unwrap().as_ptr() as usize;
        let pc = c.downcast_ref::<E>().unwrap().as_ptr() as usize;
        vp_assert!(n == 0 || po != pc, "VP: clone shares storage with the original");
    }
    check_vec::<Tr, B, E>(&v, &m);
    check_vec::<Tr, B, E>(&c, &mc);
    let idx = p.idx.get();
    match after {
        After::Nothing => {}
        After::PushOrig | After::PushClone => {
            let tag = any_u8();
            let (tv, tm) = if after == After::PushOrig { (&mut v, &mut m) } else { (&mut c, &mut mc) };
            if !B::RESIZABLE {
                assume(tm.len < tv.capacity());
            }
            tv.push(AnyValueWrapper::new(E::make(NEW_ID, tag)));
            tm.push(NEW_ID, E::norm(tag));
        }
        After::RemoveOrig | After::RemoveClone => {
            // (an empty vector has nothing to remove: the instance then only checks the clone itself)
            if idx < n {
                let (tv, tm) = if after == After::RemoveOrig { (&mut v, &mut m) } else { (&mut c, &mut mc) };
                drop(tv.remove(idx));
                let _ = tm.remove(idx);
            }
        }
        After::MutateOrig | After::MutateClone => {
            if idx < n {
                let t2 = any_u8();
                let (tv, tm) = if after == After::MutateOrig { (&mut v, &mut m) } else { (&mut c, &mut mc) };
                tv.at_mut(idx).downcast_mut::<E>().unwrap().set_tag(t2);
                tm.tag[idx] = E::norm(t2);
            }
        }
        After::ClearOrig => {
            v.clear();
            m.clear();
        }
        After::ClearClone => {
            c.clear();
            mc.clear();
        }
    }
    check_vec::<Tr, B, E>(&v, &m);
    check_vec::<Tr, B, E>(&c, &mc);
    // the clone is itself cloneable (constraints carried over)
    if after == After::Nothing && B::RESIZABLE {
        let c2 = c.clone();
        let mc2 = cloned_model(&mc, CLONE_STEP);
        check_vec::<Tr, B, E>(&c2, &mc2);
        drop(c2);
    }
    drop(v);
    drop(c);
    check_all_gone::<E>(false);
    reached_end();
}

/// clone_empty / clone_empty_in(X): empty, same element type/layout, accepts, destroys and clones values
pub fn clone_empty_h<Tr: ?Sized + Trait + Cloneable, B: Backend, X: Backend, E: Elem + SatisfyTraits<Tr>>(p: crate::c01::P, same_backend: bool) {
    reset_all();
    let (v, m) = build::<Tr, B, E>(p.cap, p.len, 0);
    if same_backend {
        let mut c = v.clone_empty();
        vp_assert!(c.len() == 0 && c.is_empty(), "VP: clone_empty is not empty");
        vp_assert!(c.element_typeid() == TypeId::of::<E>() && c.element_layout() == Layout::new::<E>(), "VP: clone_empty has different element type/layout");
        if B::RESIZABLE || c.capacity() > 0 {
            let tag = any_u8();
            c.push(AnyValueWrapper::new(E::make(NEW_ID, tag)));
            let mut mc = Model::new();
            mc.push(NEW_ID, E::norm(tag));
            check_vec::<Tr, B, E>(&c, &mc);
            let c2 = c.clone();
            check_vec::<Tr, B, E>(&c2, &cloned_model(&mc, CLONE_STEP));
            drop(c2);
        }
        drop(c);
    } else {
        let mut c = v.clone_empty_in(X::inst());
        vp_assert!(c.len() == 0 && c.is_empty(), "VP: clone_empty_in is not empty");
        vp_assert!(c.element_typeid() == TypeId::of::<E>() && c.element_layout() == Layout::new::<E>(), "VP: clone_empty_in has different element type/layout");
        if X::RESIZABLE || c.capacity() > 0 {
            let mut mc = Model::new();
            // a lazy clone of an element of the source is accepted and cloned
            if m.len > 0 {
                let j = p.idx.get();
                assume(j < m.len);
                c.push(v.at(j).lazy_clone());
                mc.push(m.id[j].wrapping_add(CLONE_STEP), m.tag[j]);
            } else {
                let tag = any_u8();
                c.push(AnyValueWrapper::new(E::make(NEW_ID, tag)));
                mc.push(NEW_ID, E::norm(tag));
            }
            check_vec::<Tr, X, E>(&c, &mc);
            if X::RESIZABLE {
                let c2 = c.clone();
                check_vec::<Tr, X, E>(&c2, &cloned_model(&mc, CLONE_STEP));
                drop(c2);
            }
            // and gives it back
            let h = c.pop().unwrap();
            let val = h.downcast::<E>().unwrap();
            check_elem::<E>(&val, mc.id[0], mc.tag[0]);
        }
        drop(c);
    }
    check_vec::<Tr, B, E>(&v, &m);
    drop(v);
    check_all_gone::<E>(false);
    reached_end();
}

#[derive(Copy, Clone, Debug, PartialEq, Eq)]
pub enum LzSrc {
    ElemRef,
    ElemMut,
    Handle,
    Drained,
}
#[derive(Copy, Clone, Debug, PartialEq, Eq)]
pub enum LzUse {
    Push,
    Insert,
    Splice,
    Downcast,
}

/// C09: lazy clones from every cloneable source kind, chain depth `depth` (lazy clone of a lazy clone),
/// consumed `uses` times by kind `how`; creating / copying / dropping clones nothing and destroys nothing.
pub fn lazy_h<Tr: ?Sized + Trait + Cloneable, B: Backend, BY: Backend, E: Elem + SatisfyTraits<Tr>>(
    p: crate::c01::P,
    src: LzSrc,
    how: LzUse,
    depth: usize,
    uses: usize,
) {
    reset_all();
    let (mut v, mut m) = build::<Tr, B, E>(p.cap, p.len, 0);
    assume(m.len > 0);
    let j = p.idx.get();
    assume(j < m.len);
    let (mut y, mut my) = build::<Tr, BY, E>(p.cap2, p.len2, E::YBASE);
    if !BY::RESIZABLE {
        assume(my.len + uses <= y.capacity());
    }
    let (sid, stag) = (m.id[j], m.tag[j]);
    let d0 = elems::total_drops();

    macro_rules! use_all {
        ($src:expr) => {{
            let s = $src;
            let l1 = s.lazy_clone();
            vp_assert!(elems::total_clones() == 0 && elems::total_drops() == d0, "VP: creating a lazy clone must not clone or destroy");
            let l1b = l1.clone();
            let l2 = l1.lazy_clone();
            let l3 = l2.lazy_clone();
            let l2b = l2.clone();
            drop(l1b);
            drop(l2b);
            vp_assert!(elems::total_clones() == 0 && elems::total_drops() == d0, "VP: copying / dropping a lazy clone must not clone or destroy");
            vp_assert!(l1.value_typeid() == TypeId::of::<E>() && l1.size() == core::mem::size_of::<E>(), "VP: lazy clone misreports type id / size");
            vp_assert!(l2.value_typeid() == TypeId::of::<E>() && l2.size() == core::mem::size_of::<E>() && l3.size() == core::mem::size_of::<E>(), "VP: lazy clone misreports type id / size");
            vp_assert!(l1.as_bytes().len() == core::mem::size_of::<E>() && l3.as_bytes().len() == core::mem::size_of::<E>(), "VP: lazy clone byte view has the wrong length");
            let mut u = 0;
            while u < 3 {
                if u < uses {
                    // the (u+1)-th clone of the source carries identity sid + (u+1) * CLONE_STEP
                    let cid_u = sid.wrapping_add(CLONE_STEP.wrapping_mul(u as u8 + 1));
                    macro_rules! consume {
                        ($l:expr) => {{
                            match how {
                                LzUse::Push => {
                                    y.push($l);
                                    my.push(cid_u, stag);
                                }
                                LzUse::Insert => {
                                    let at = p.idx2.get();
                                    assume(at <= my.len);
                                    y.insert(at, $l);
                                    my.insert(at, cid_u, stag);
                                }
                                LzUse::Splice => {
                                    let at = p.idx2.get();
                                    assume(at <= my.len);
                                    drop(y.splice(at..at, core::iter::once($l)));
                                    my.insert(at, cid_u, stag);
                                }
                                LzUse::Downcast => {
                                    let val = $l.downcast::<E>();
                                    vp_assert!(val.is_some(), "VP: lazy clone downcast to the real type failed");
                                    let val = val.unwrap();
                                    check_elem::<E>(&val, cid_u, stag);
                                    drop(val);
                                }
                            }
                        }};
                    }
                    if depth == 1 {
                        consume!(l1.clone())
                    } else if depth == 2 {
                        consume!(l2.clone())
                    } else {
                        consume!(l3.clone())
                    }
                    vp_assert!(elems::total_clones() == u + 1, "VP: each lazy clone consumption must clone exactly once");
                    if !E::ZST {
                        vp_assert!(elems::clones_from(sid) as usize == u + 1, "VP: lazy clone must clone the original source");
                    }
                }
                u += 1;
            }
            drop(l3);
            drop(l2);
            drop(l1);
            vp_assert!(elems::total_clones() == uses, "VP: lazy clones cloned more often than they were consumed");
            if E::TRACKED {
                vp_assert!(elems::live(sid) == 1, "VP: the source of a lazy clone must stay alive");
            }
        }};
    }

    match src {
        LzSrc::ElemRef => {
            let r = v.at(j);
            use_all!(&*r);
        }
        LzSrc::ElemMut => {
            let r = v.at_mut(j);
            use_all!(&*r);
        }
        LzSrc::Handle => {
            let h = v.remove(j);
            use_all!(&h);
            // the source handle is still usable: put the original value back where it was
            let val = h.downcast::<E>().unwrap();
            check_elem::<E>(&val, sid, stag);
            let _ = m.remove(j);
            v.insert(j, AnyValueWrapper::new(val));
            m.insert(j, sid, stag);
        }
        LzSrc::Drained => {
            {
                let mut d = v.drain(j..j + 1);
                let it = d.next().unwrap();
                use_all!(&it);
                let val = it.downcast::<E>().unwrap();
                check_elem::<E>(&val, sid, stag);
                core::mem::forget(val);
            }
            if E::TRACKED {
                // forgotten on purpose above: account for it as destroyed-by-harness
                unsafe {
                    elems::LIVE[elems::ix(sid)] -= 1;
                    elems::DROPS[elems::ix(sid)] += 1;
                }
            }
            m.drain(j, j + 1);
        }
    }
    check_vec::<Tr, B, E>(&v, &m);
    check_vec::<Tr, BY, E>(&y, &my);
    drop(v);
    drop(y);
    check_all_gone::<E>(false);
    reached_end();
}
