//! C11 – stack backends: stated capacity, behaviour at the capacity boundary, no heap use.

use crate::backends::Backend;
use crate::c02::{fill_slots, Rep, RMAX};
use crate::elems::{self, Elem};
use crate::model::*;
use crate::state::*;
use crate::sym::*;
use crate::{vp_assert, vpk_assert};
use any_vec::any_value::*;
use any_vec::mem::{Stack, StackN};
use any_vec::traits::{Cloneable, None, Trait};
use any_vec::{AnyVec, SatisfyTraits};
use core::alloc::Layout;
use core::marker::PhantomData;
use core::mem::{size_of, MaybeUninit};

/// allocator stubs for stack-backend harnesses: any heap request is a violation
#[cfg(kani)]
pub unsafe fn forbid_alloc(_layout: Layout) -> *mut u8 {
    vpk_assert!(false, "VP[K]: a stack-backed vector requested heap memory (alloc)");
    core::ptr::null_mut()
}
#[cfg(kani)]
pub unsafe fn forbid_realloc(_p: *mut u8, _layout: Layout, _n: usize) -> *mut u8 {
    vpk_assert!(false, "VP[K]: a stack-backed vector requested heap memory (realloc)");
    core::ptr::null_mut()
}
#[cfg(kani)]
pub unsafe fn forbid_dealloc(_p: *mut u8, _layout: Layout) {
    vpk_assert!(false, "VP[K]: a stack-backed vector released heap memory (dealloc)");
}

pub fn stack_cap<const S: usize, E: Elem + SatisfyTraits<dyn None>>() {
    reset_all();
    let v: AnyVec<dyn None, Stack<S>> = AnyVec::new_in::<E>(Stack::<S>);
    let want = if size_of::<E>() == 0 { usize::MAX } else { S / size_of::<E>() };
    vp_assert!(v.capacity() == want, "VP: Stack<SIZE> capacity is not SIZE / size_of::<T>() (unbounded for zero-sized T)");
    vp_assert!(v.len() == 0, "VP: fresh vector is not empty");
    vp_assert!(v.element_layout() == Layout::new::<E>(), "VP: element_layout() is not the real element layout");
    drop(v);
    reached_end();
}

pub fn stackn_cap<const N: usize, const S: usize, E: Elem + SatisfyTraits<dyn None>>() {
    reset_all();
    let fits = (N as u128) * (size_of::<E>() as u128) <= S as u128;
    if fits {
        let v: AnyVec<dyn None, StackN<N, S>> = AnyVec::new_in::<E>(StackN::<N, S>);
        vp_assert!(v.capacity() == N, "VP: StackN<N, SIZE> capacity is not N");
        drop(v);
    } else {
        must_panic("Insufficient storage", || {
            let _v: AnyVec<dyn None, StackN<N, S>> = AnyVec::new_in::<E>(StackN::<N, S>);
        });
    }
    reached_end();
}

#[derive(Copy, Clone, Debug, PartialEq, Eq)]
pub enum Over {
    Push,
    Insert,
    TPush,
    TInsert,
    PushLazy,
    Splice,
    TSplice,
}

/// an operation whose result would be capacity + 1 elements: must panic ("Can't change capacity!");
/// push/insert leave the contents unchanged, splice leaves them valid (checked after the real
/// unwind in native replay; under Kani the panic ends the path)
pub fn over_h<Tr: ?Sized + Trait, B: Backend, E: Elem + SatisfyTraits<Tr>>(p: crate::c02::P2, op: Over) {
    reset_all();
    let (mut v, m) = build::<Tr, B, E>(p.cap, p.len, 0);
    let cap = v.capacity();
    let len = m.len;
    let i = p.start.get();
    let e = p.end.get();
    assume(i <= len);
    let mut slots: [MaybeUninit<E>; RMAX] = unsafe { MaybeUninit::uninit().assume_init() };
    let sp = slots.as_mut_ptr() as *mut E;
    let is_splice = matches!(op, Over::Splice | Over::TSplice);
    let mut n = 0;
    if is_splice {
        assume(i <= e && e <= len);
        n = p.r.get();
        assume(n <= RMAX && len - (e - i) + n == cap + 1);
        let _ = fill_slots::<E>(&mut slots, n);
    } else {
        assume(len == cap);
    }
    must_panic("Can't change capacity", || match op {
        Over::Push => v.push(AnyValueWrapper::new(E::make(NEW_ID, 1))),
        Over::Insert => v.insert(i, AnyValueWrapper::new(E::make(NEW_ID, 1))),
        Over::TPush => v.downcast_mut::<E>().unwrap().push(E::make(NEW_ID, 1)),
        Over::TInsert => v.downcast_mut::<E>().unwrap().insert(i, E::make(NEW_ID, 1)),
        Over::PushLazy => unreachable!(),
        Over::Splice => drop(v.splice(i..e, Rep::<E, true> { slots: sp, n, k: 0, delta: 0, ph: PhantomData })),
        Over::TSplice => {
            let mut t = v.downcast_mut::<E>().unwrap();
            drop(t.splice(i..e, crate::c02::RepT::<E> { slots: sp, n, k: 0, delta: 0 }));
        }
    });
    if is_splice {
        crate::c03::check_valid_leaky::<Tr, B, E>(&v, &m, i);
    } else {
        check_vec::<Tr, B, E>(&v, &m);
    }
    core::mem::forget(v);
    reached_end();
}
