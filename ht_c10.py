"""C10 (capacity), C18 (heap layouts, allocator stubs), C17 (raw parts) harness instances."""
from harnesses import *  # noqa
from ht_c01 import P

ALLOC_STUBS = [("std::alloc::alloc", "crate::c10::alloc_stub"), ("std::alloc::dealloc", "crate::c10::dealloc_stub"), ("std::alloc::realloc", "crate::c10::realloc_stub")]
X_UNWRAP_MUL = {"fn": r"option::unwrap_failed|Option::<.*>::unwrap|expect_failed", "desc": r"."}
X_OVF = {"fn": r"AnyVecRaw::<.*>::reserve|HeapMem.*::expand|HeapMem.*::resize|MemResizable.*expand_exact|mem::MemResizable::expand_exact", "desc": r"overflow|capacity overflow|placeholder"}
X_ALLOCERR = {"fn": r"handle_alloc_error", "desc": r"."}


def cap(op, tr, b, elem, capv, L=None, nmax=None, tier="quick", stubs=True):
    L = capv if L is None else L
    nmax = capv + 2 if nmax is None else nmax
    st = stubs and b == "heap"
    name = "c10_%s__%s_%s_%s__c%d_n%d%s" % (op.lower(), tr, b, elem, capv, nmax, "" if st or b != "heap" else "_nostub")
    call = "c10::cap_h::<%s, %s, %s>(%s, c10::CapOp::%s, %s)" % (TR[tr], bk(b, elem, capv), elem, P(capv, "s%d" % L, "s%d" % nmax), op, "true" if st else "false")
    props = ["C10"] + (["C18"] if st else []) + (["C05"] if b == "reloc" else [])
    H(name, call, props, tier=tier, unwind=unwind_for(elem, max(capv, nmax) + 3), stubs=ALLOC_STUBS if st else [],
      dims=dict(cap=capv, len="s%d" % L, arg="s%d" % nmax, op=op, elem=elem, backend=b, traits=tr, alloc_stubs=st, shape_symbolic=True), role="c10_%s" % op.lower())


def huge(op, tr, elem, tier="quick"):
    name = "c18_huge_%s__%s_%s" % (op.lower(), tr, elem)
    call = "c10::huge_h::<%s, %s>(%s, c10::HugeOp::%s)" % (TR[tr], elem, P(2, "s2", 0), op)
    H(name, call, ["C18", "C10"], tier=tier, unwind=unwind_for(elem, 4), stubs=ALLOC_STUBS, expect=[X_UNWRAP_MUL, X_OVF, X_ALLOCERR],
      dims=dict(arg="full usize range (symbolic)", op=op, elem=elem, traits=tr, alloc_stubs=True, shape_symbolic=True), role="c18_huge_%s" % op.lower())


OPN = {0: "reserve", 1: "reserve_exact", 2: "shrink_to_fit", 3: "shrink_to", 4: "push", 5: "pop"}


def heapseq(tr, elem, capv, ln, ops, tier="quick"):
    """ops: list of (op code, arg) - concrete (allocation sizes must be constants for CBMC)"""
    st = list(ops) + [(2, 0)] * (3 - len(ops))
    tag = "_".join("%s%d" % (OPN[o][:2] + OPN[o][-2:], n) for o, n in ops)
    name = "c18_heapseq__%s_%s__c%d_l%d__%s" % (tr, elem, capv, ln, tag)
    call = "c10::heap_seq_h::<%s, %s>(%s, [%s], %d)" % (TR[tr], elem, P(capv, ln, 0), ", ".join("(%d, %d)" % x for x in st), len(ops))
    H(name, call, ["C18", "C10"], tier=tier, unwind=unwind_for(elem, capv + 6), stubs=ALLOC_STUBS,
      dims=dict(cap=capv, len=ln, ops=[[OPN[o], n] for o, n in ops], elem=elem, traits=tr, alloc_stubs=True, shape_symbolic=False, payloads_symbolic=True), role="c18_heapseq")


def rawparts(after, twice, tr, elem, capv=2, tier="quick", also=()):
    name = "c17_rawparts_%s%s__%s_%s__c%d" % (after.lower(), "_twice" if twice else "", tr, elem, capv)
    call = "c10::rawparts_heap::<%s, %s>(%s, c10::RpAfter::%s, %s)" % (TR[tr], elem, P(capv, "s%d" % capv, "s%d" % capv), after, "true" if twice else "false")
    H(name, call, ["C17"] + list(also), tier=tier, unwind=unwind_for(elem, capv + 3), stubs=ALLOC_STUBS,
      dims=dict(cap=capv, after=after, twice=twice, elem=elem, traits=tr, alloc_stubs=True, shape_symbolic=True), role="c17_rawparts")


def define():
    # C10 / C18 quick: each op from every (len <= cap) state, cap in {0, 2}, arg 0..=cap+2
    for op in ("Reserve", "ReserveExact", "ShrinkToFit", "ShrinkTo", "PushFull"):
        cap(op, "none", "heap", "B3D", 2)
    cap("Reserve", "none", "heap", "W8D", 0)
    cap("ShrinkTo", "none", "heap", "W8D", 3, tier="rot2")
    cap("TReserve", "none", "heap", "H2", 1)
    cap("TShrinkTo", "none", "heap", "H2", 2)
    cap("Reserve", "none", "heap", "Z0D", 2)
    cap("ShrinkToFit", "none", "heap", "Z0", 2)
    cap("PushFull", "none", "heap", "Z0D", 1)
    for op in ("Reserve", "ShrinkTo", "PushFull"):
        cap(op, "none", "reloc", "B3D", 2)
    for op in ("WithCapacity", "Reserve", "ReserveExact"):
        huge(op, "none", "H2" if op != "Reserve" else "W8")
    huge("WithCapacity", "none", "B1", tier="rot2")
    huge("WithCapacity", "none", "Z0", tier="rot2")
    # zero-sized elements: nothing is allocated, so only the length arithmetic can refuse
    huge("Reserve", "none", "Z0D")
    huge("ReserveExact", "none", "Z0", tier="rot2")
    heapseq("none", "B3D", 1, 1, [(4, 0), (2, 0), (5, 0)])
    heapseq("none", "B3D", 2, 1, [(0, 3), (3, 2), (2, 0)])
    heapseq("none", "H2", 0, 0, [(1, 2), (4, 0), (3, 0)], tier="rot2")
    heapseq("none", "B3D", 1, 1, [(5, 0), (2, 0), (4, 0)], tier="rot2")
    # C17
    rawparts("Nothing", False, "none", "B3D")
    rawparts("Push", False, "none", "W8D")
    rawparts("Remove", True, "none", "B3D")
    rawparts("Pop", False, "clone", "B3D", capv=1)
    rawparts("Clear", False, "call", "B3D", capv=1)
    rawparts("Nothing", True, "none", "Z0D")
    rawparts("Push", False, "none", "B3D", capv=0)
    # nothing allocated and an element alignment above 1: the rebuilt vector's (dangling) storage pointer must stay aligned
    rawparts("Nothing", False, "none", "H2", capv=0, also=("C12",))
    rawparts("Nothing", True, "none", "W8", capv=0, also=("C12",), tier="rot2")
    for ln in (2, 0):
        H("c17_rawparts_clone__clone_B3D__l%d" % ln, "c10::rawparts_clone::<dyn Cloneable, B3D>(%s)" % P(2, ln, 0), ["C17"], unwind=unwind_for("B3D", 4), dims=dict(cap=2, len=ln, elem="B3D", traits="clone", shape_symbolic=False, payloads_symbolic=True), role="c17_rawparts_clone")
    for tr, elem in (("none", "W8D"), ("clone", "B3D"), ("call", "Z0D")):
        H("c17_rawparts_empty__%s_%s" % (tr, elem), "c10::rawparts_empty::<%s, %s>()" % (TR[tr], elem), ["C17"], unwind=unwind_for(elem, 3),
          dims=dict(backend="Empty", elem=elem, traits=tr), role="c17_rawparts_empty")
    # thorough
    for elem in ("B1", "H2", "B3D", "W8", "W8D", "Z0D"):
        for capv in (0, 1, 2, 3):
            for op in ("Reserve", "ReserveExact", "ShrinkToFit", "ShrinkTo", "PushFull", "TReserve", "TShrinkTo"):
                cap(op, "none", "heap", elem, capv, tier="thorough")
                if elem in ("B3D", "W8"):
                    cap(op, "none", "reloc", elem, capv, tier="thorough")
        for op in ("WithCapacity", "Reserve", "ReserveExact"):
            huge(op, "none", elem, tier="thorough")
        import itertools
        for (o1, o2) in itertools.product(range(6), repeat=2):
            heapseq("none", elem, 1, 1, [(o1, 2), (o2, 1), (2, 0)], tier="thorough")
    for tr in TR:
        for after in ("Nothing", "Push", "Remove", "Pop", "Clear"):
            rawparts(after, after in ("Remove", "Nothing"), tr, "B3D", capv=2, tier="thorough")
        H("c17_rawparts_empty__%s_B3D" % tr, "c10::rawparts_empty::<%s, B3D>()" % TR[tr], ["C17"], tier="thorough", unwind=unwind_for("B3D", 3), dims=dict(backend="Empty", elem="B3D", traits=tr), role="c17_rawparts_empty")
    for elem in ("T12", "D24D", "Q16"):
        cap("Reserve", "none", "heap", elem, 2, tier="thorough")
        cap("ShrinkTo", "none", "heap", elem, 2, tier="thorough")
        rawparts("Push", False, "none", elem, capv=2, tier="thorough")


def _c05_extra():
    for elem, capv, ln in (("B3D", 2, 2), ("W8D", 1, 1), ("B3D", 0, 0)):
        H("c05_reloclife__clone_%s__c%d_l%d" % (elem, capv, ln), "c10::reloc_life_h::<dyn Cloneable, %s>(%s)" % (elem, P(capv, ln, 0)), ["C05", "C08"], unwind=unwind_for(elem, capv + 4),
          dims=dict(cap=capv, len=ln, elem=elem, backend="reloc", traits="clone", shape_symbolic=False, payloads_symbolic=True), role="c05_reloclife")


_old_define = define


def define():
    _old_define()
    _c05_extra()
