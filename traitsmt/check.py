"""Engine C (C15): trait-clause encoding of Send / Sync / Clone / constraint-set facts, decided by z3.

Input: rustdoc JSON (`--document-private-items`) of /repo's current tree: every *explicit* impl
header (generics, where clauses, `for` type, associated types) and the field types of every struct.
rustdoc's synthetic auto-trait impls are NOT used. Auto traits are derived here by the language
rules (structural conjunction over fields; an explicit impl for an ADT switches the structural rule
off for that ADT; &T: Send iff T: Sync; raw pointers / NonNull never; PhantomData<T> as T; ...).
Each fact becomes a boolean formula over configuration variables (backend flags M:Send, M:Sync,
M::Mem:Send, M::Mem:Sync, Mem:MemResizable, M:MemBuilderSizeable; element flags T:Send, T:Sync, T:Clone;
replacement-iterator flags), the 8 constraint sets are enumerated, and z3 is asked for a configuration
that contradicts the property (unsat expected). A sat model names a concrete configuration, which is
replayed by compiling a generated probe program (marker element / backend types) with the repo's
toolchain; the encoder itself is validated on every run against rustc on a sample of configurations.
"""
import itertools
import json
import os
import re
import shutil
import subprocess
import time
from pathlib import Path

HERE = Path(__file__).resolve().parent
ENV = dict(os.environ, CARGO_NET_OFFLINE="true", CARGO_TERM_COLOR="never")
ENV.pop("RUSTFLAGS", None)

SETS = {
    "None": frozenset(["None"]), "Send": frozenset(["Send"]), "Sync": frozenset(["Sync"]), "Send + Sync": frozenset(["Send", "Sync"]),
    "Cloneable": frozenset(["Cloneable"]), "Cloneable + Send": frozenset(["Cloneable", "Send"]), "Cloneable + Sync": frozenset(["Cloneable", "Sync"]),
    "Cloneable + Send + Sync": frozenset(["Cloneable", "Send", "Sync"]),
}
ALWAYS_EXT = ("TypeId", "Layout", "Range", "usize", "Alignment")


class Inconclusive(Exception):
    pass


# ----------------------------------------------------------------------------- formulas
def F_and(*xs):
    xs = [x for x in xs if x != "true"]
    if any(x == "false" for x in xs):
        return "false"
    if not xs:
        return "true"
    return xs[0] if len(xs) == 1 else "(and %s)" % " ".join(xs)


def F_or(*xs):
    xs = [x for x in xs if x != "false"]
    if any(x == "true" for x in xs):
        return "true"
    if not xs:
        return "false"
    return xs[0] if len(xs) == 1 else "(or %s)" % " ".join(xs)


def F_not(x):
    return {"true": "false", "false": "true"}.get(x, "(not %s)" % x)


def F_imp(a, b):
    return F_or(F_not(a), b)


def F_iff(a, b):
    return "(= %s %s)" % (a, b)


# ----------------------------------------------------------------------------- rustdoc model
class Doc:
    def __init__(self, data):
        self.idx = data["index"]
        self.paths = data["paths"]
        self.structs = {}
        self.aliases = {}
        self.impls = []
        self.by_name = {}
        for k, v in self.idx.items():
            inner = v["inner"]
            if "struct" in inner:
                st = inner["struct"]
                kind = st["kind"]
                if kind == "unit":
                    fids = []
                elif "plain" in kind:
                    if kind["plain"].get("has_stripped_fields"):
                        raise Inconclusive("stripped fields in struct %s" % v["name"])
                    fids = kind["plain"]["fields"]
                else:
                    fids = [f for f in kind["tuple"]]
                    if any(f is None for f in fids):
                        raise Inconclusive("stripped tuple field in struct %s" % v["name"])
                fields = [self.idx[str(f)]["inner"]["struct_field"] for f in fids]
                params = [p["name"] for p in st["generics"]["params"] if "type" in p["kind"] or "const" in p["kind"]]
                defaults = [p["kind"].get("type", {}).get("default") if "type" in p["kind"] else None for p in st["generics"]["params"] if "type" in p["kind"] or "const" in p["kind"]]
                self.structs[int(k)] = {"name": v["name"], "params": params, "fields": fields, "id": int(k), "defaults": defaults}
                self.by_name.setdefault(v["name"], []).append(int(k))
            elif "type_alias" in inner:
                ta = inner["type_alias"]
                params = [p["name"] for p in ta["generics"]["params"] if "type" in p["kind"] or "const" in p["kind"]]
                self.aliases[int(k)] = {"name": v["name"], "params": params, "type": ta["type"]}
                self.by_name.setdefault(v["name"], []).append(int(k))
            elif "enum" in inner or "union" in inner:
                raise Inconclusive("enum/union %s in the crate: auto-trait rule not implemented" % v["name"])
            elif "impl" in inner:
                im = inner["impl"]
                if im.get("is_synthetic") or im.get("blanket_impl") is not None:
                    continue
                self.impls.append(im)
            elif "trait" in inner:
                self.by_name.setdefault(v["name"], []).append(int(k))

    def path_of(self, id_):
        p = self.paths.get(str(id_))
        return "::".join(p["path"]) if p else None

    def crate_of(self, id_):
        p = self.paths.get(str(id_))
        return p["crate_id"] if p else None

    def struct_by_path(self, suffix):
        hits = [i for i in self.structs if (self.path_of(i) or "") == "any_vec::" + suffix]
        if not hits:
            hits = [i for i in self.structs if (self.path_of(i) or "").endswith("::" + suffix)]
        if len(hits) != 1:
            raise Inconclusive("struct %s not found uniquely (%d hits)" % (suffix, len(hits)))
        return hits[0]

    def alias_by_name(self, name):
        hits = [i for i, a in self.aliases.items() if a["name"] == name]
        if len(hits) != 1:
            raise Inconclusive("alias %s not found uniquely" % name)
        return hits[0]


# type terms: ('adt', id, (args...)) | ('param', name) | ('ref', mut, t) | ('ptr', t) | ('tuple', (ts)) | ('array', t) | ('slice', t)
#   | ('prim', name) | ('fn',) | ('dyn', frozenset(names)) | ('proj', self_t, trait_name, assoc) | ('ext', name, (args)) | ('abs', name) | ('const', text)
def conv(doc, j):
    if "generic" in j:
        return ("param", j["generic"])
    if "primitive" in j:
        return ("prim", j["primitive"])
    if "borrowed_ref" in j:
        return ("ref", bool(j["borrowed_ref"]["is_mutable"]), conv(doc, j["borrowed_ref"]["type"]))
    if "raw_pointer" in j:
        return ("ptr", conv(doc, j["raw_pointer"]["type"]))
    if "tuple" in j:
        return ("tuple", tuple(conv(doc, x) for x in j["tuple"]))
    if "array" in j:
        return ("array", conv(doc, j["array"]["type"]))
    if "slice" in j:
        return ("slice", conv(doc, j["slice"]))
    if "function_pointer" in j:
        return ("fn",)
    if "dyn_trait" in j:
        return ("dyn", frozenset(t["trait"]["path"].split("::")[-1] for t in j["dyn_trait"]["traits"]))
    if "qualified_path" in j:
        q = j["qualified_path"]
        tr = q.get("trait") or {}
        tname = tr.get("path") or ""
        if not tname and tr.get("id") is not None:
            tname = doc.idx.get(str(tr["id"]), {}).get("name") or ""
        return ("proj", conv(doc, q["self_type"]), tname.split("::")[-1], q["name"])
    if "resolved_path" in j:
        r = j["resolved_path"]
        args = []
        a = r.get("args")
        if a and "angle_bracketed" in a:
            for x in a["angle_bracketed"]["args"]:
                if "type" in x:
                    args.append(conv(doc, x["type"]))
                elif "const" in x:
                    args.append(("const", json.dumps(x["const"])))
        id_ = r["id"]
        if id_ in doc.structs:
            st = doc.structs[id_]
            # defaulted generic parameters that were left out
            while len(args) < len(st["params"]):
                d = st["defaults"][len(args)]
                if d is None:
                    raise Inconclusive("missing generic argument without default for %s" % st["name"])
                args.append(subst(conv(doc, d), dict(zip(st["params"], args))))
            return ("adt", id_, tuple(args))
        if id_ in doc.aliases:
            al = doc.aliases[id_]
            sub = dict(zip(al["params"], args))
            return subst(conv(doc, al["type"]), sub)
        return ("ext", r["path"].split("::")[-1], tuple(args))
    if "impl_trait" in j:
        raise Inconclusive("impl Trait in a type position")
    raise Inconclusive("unsupported type json: %s" % list(j.keys()))


def subst(t, s):
    k = t[0]
    if k == "param":
        return s.get(t[1], t)
    if k == "adt":
        return ("adt", t[1], tuple(subst(a, s) for a in t[2]))
    if k == "ext":
        return ("ext", t[1], tuple(subst(a, s) for a in t[2]))
    if k == "ref":
        return ("ref", t[1], subst(t[2], s))
    if k in ("ptr", "array", "slice"):
        return (k, subst(t[1], s))
    if k == "tuple":
        return ("tuple", tuple(subst(a, s) for a in t[1]))
    if k == "proj":
        return ("proj", subst(t[1], s), t[2], t[3])
    return t


def unify(pat, t, s):
    """match impl pattern `pat` (with ('param',..) variables) against ground type t; extends s or returns None"""
    if pat[0] == "param":
        if pat[1] in s:
            return s if s[pat[1]] == t else None
        s = dict(s)
        s[pat[1]] = t
        return s
    if pat[0] != t[0]:
        return None
    k = pat[0]
    if k == "adt" or k == "ext":
        if pat[1] != t[1] or len(pat[2]) != len(t[2]):
            return None
        for a, b in zip(pat[2], t[2]):
            s = unify(a, b, s)
            if s is None:
                return None
        return s
    if k == "ref":
        return unify(pat[2], t[2], s) if pat[1] == t[1] else None
    if k in ("ptr", "array", "slice"):
        return unify(pat[1], t[1], s)
    if k == "tuple":
        if len(pat[1]) != len(t[1]):
            return None
        for a, b in zip(pat[1], t[1]):
            s = unify(a, b, s)
            if s is None:
                return None
        return s
    return s if pat == t else None


class Solver:
    """formula builder: holds(trait, ground type) -> boolean formula over the configuration variables"""

    def __init__(self, doc):
        self.doc = doc
        self.vars = set()
        self.depth = 0

    def var(self, name):
        self.vars.add(name)
        return name

    # ---- abstract (configuration) types
    def abs_holds(self, trait, name):
        table = {
            ("Send", "M"): "M_send", ("Sync", "M"): "M_sync", ("Send", "Mem"): "Mem_send", ("Sync", "Mem"): "Mem_sync",
            ("MemResizable", "Mem"): "Mem_resizable", ("MemBuilderSizeable", "M"): "M_sizeable", ("MemRawParts", "Mem"): "Mem_rawparts",
            ("Send", "T"): "T_send", ("Sync", "T"): "T_sync", ("Clone", "T"): "T_clone",
            ("Send", "I"): "I_send", ("Sync", "I"): "I_sync", ("Send", "Item"): "Item_send", ("Sync", "Item"): "Item_sync",
            ("Default", "M"): "M_default", ("Clone", "M"): "true",
        }
        if (trait, name) in table:
            v = table[(trait, name)]
            return v if v in ("true", "false") else self.var(v)
        if trait in ("MemBuilder", "Mem", "Sized", "ExactSizeIterator", "Iterator", "AnyValue", "IntoIterator", "Trait", "CloneType"):
            return "true"
        raise Inconclusive("no rule for %s: %s" % (name, trait))

    def normalize(self, t):
        """resolve associated-type projections on ground types"""
        k = t[0]
        if k == "proj":
            base = self.normalize(t[1])
            if base[0] == "abs":
                if base[1] == "M" and t[3] == "Mem":
                    return ("abs", "Mem")
                if base[1] == "I" and t[3] == "Item":
                    return ("abs", "Item")
                raise Inconclusive("projection %s::%s on abstract %s" % (t[2], t[3], base[1]))
            # find the impl of trait t[2] for base with an associated type named t[3]
            for im in self.doc.impls:
                tr = im.get("trait")
                if not tr or tr["path"].split("::")[-1] != t[2]:
                    continue
                s = unify(conv(self.doc, im["for"]), base, {})
                if s is None:
                    continue
                for it in im["items"]:
                    item = self.doc.idx[str(it)]
                    if item["name"] == t[3] and "assoc_type" in item["inner"]:
                        return self.normalize(subst(conv(self.doc, item["inner"]["assoc_type"]["type"]), s))
            raise Inconclusive("cannot normalize <%s as %s>::%s" % (show(base), t[2], t[3]))
        if k == "adt":
            return ("adt", t[1], tuple(self.normalize(a) for a in t[2]))
        if k == "ext":
            return ("ext", t[1], tuple(self.normalize(a) for a in t[2]))
        if k == "ref":
            return ("ref", t[1], self.normalize(t[2]))
        if k in ("ptr", "array", "slice"):
            return (k, self.normalize(t[1]))
        if k == "tuple":
            return ("tuple", tuple(self.normalize(a) for a in t[1]))
        return t

    def explicit_impls(self, trait, adt_id):
        out = []
        for im in self.doc.impls:
            tr = im.get("trait")
            if not tr or tr["path"].split("::")[-1] != trait:
                continue
            f = im["for"]
            if "resolved_path" in f and f["resolved_path"]["id"] == adt_id:
                out.append(im)
            elif "resolved_path" in f and f["resolved_path"]["id"] in self.doc.aliases:
                ft = conv(self.doc, f)
                if ft[0] == "adt" and ft[1] == adt_id:
                    out.append(im)
        return out

    def impl_conditions(self, im, s):
        """conjunction of generic-parameter bounds and where predicates of impl `im` under substitution s"""
        conds = []
        g = im["generics"]
        for p in g["params"]:
            if "type" in p["kind"]:
                ty = s.get(p["name"])
                if ty is None:
                    raise Inconclusive("unconstrained impl parameter " + p["name"])
                for b in p["kind"]["type"]["bounds"]:
                    conds.append(self.bound(b, ty))
        for wp in g["where_predicates"]:
            if "bound_predicate" in wp:
                ty = self.normalize(subst(conv(self.doc, wp["bound_predicate"]["type"]), s))
                for b in wp["bound_predicate"]["bounds"]:
                    conds.append(self.bound(b, ty, s))
            elif "lifetime_predicate" in wp or "region_predicate" in wp:
                continue
            else:
                raise Inconclusive("where predicate kind %s" % list(wp.keys()))
        return F_and(*conds)

    def bound(self, b, ty, s=None):
        if "outlives" in b:
            return "true"
        tb = b["trait_bound"]
        if tb.get("modifier") == "maybe":
            return "true"
        name = tb["trait"]["path"].split("::")[-1]
        targs = []
        a = tb["trait"].get("args")
        if a and "angle_bracketed" in a:
            for x in a["angle_bracketed"]["args"]:
                if "type" in x:
                    targs.append(self.normalize(subst(conv(self.doc, x["type"]), s or {})))
        return self.holds(name, ty, tuple(targs))

    def holds(self, trait, t, targs=()):
        self.depth += 1
        if self.depth > 60:
            raise Inconclusive("trait resolution too deep")
        try:
            return self._holds(trait, self.normalize(t), targs)
        finally:
            self.depth -= 1

    def _holds(self, trait, t, targs):
        k = t[0]
        if trait in ("Sized", "Any"):
            return "true"
        if k == "abs":
            try:
                return self.abs_holds(trait, t[1])
            except Inconclusive:
                if trait in ("Send", "Sync", "Clone"):
                    raise
                # ordinary trait on an abstract type: blanket impls below decide
        if k == "dyn":
            if trait in ("Send", "Sync", "Cloneable", "None"):
                return "true" if trait in t[1] else "false"
            if trait in ("Trait", "CloneType"):
                return "true" if t[1] in SETS.values() else "false"
            raise Inconclusive("dyn type: trait " + trait)
        if trait in ("Send", "Sync"):
            if k == "prim" or k == "fn" or k == "const":
                return "true"
            if k == "ref":
                if t[1]:   # &mut T
                    return self.holds(trait, t[2])
                return self.holds("Sync", t[2])
            if k == "ptr":
                return "false"
            if k in ("array", "slice"):
                return self.holds(trait, t[1])
            if k == "tuple":
                return F_and(*[self.holds(trait, a) for a in t[1]])
            if k == "ext":
                n = t[1]
                if n in ("NonNull",):
                    return "false"
                if n in ("PhantomData", "ManuallyDrop", "MaybeUninit", "Option"):
                    return F_and(*[self.holds(trait, a) for a in t[2]])
                if n in ALWAYS_EXT:
                    return "true"
                raise Inconclusive("external type constructor %s: auto-trait rule unknown" % n)
            if k == "adt":
                st = self.doc.structs[t[1]]
                ex = self.explicit_impls(trait, t[1])
                if ex:
                    alts = []
                    for im in ex:
                        if im.get("is_negative"):
                            raise Inconclusive("negative impl")
                        s = unify(conv(self.doc, im["for"]), t, {})
                        if s is None:
                            continue
                        alts.append(self.impl_conditions(im, s))
                    return F_or(*alts) if alts else "false"
                sub = dict(zip(st["params"], t[2]))
                return F_and(*[self.holds(trait, subst(conv(self.doc, f), sub)) for f in st["fields"]])
            raise Inconclusive("auto trait on %s" % (t,))
        # ordinary traits: explicit impls only
        if trait == "Clone" and k in ("prim", "fn"):
            return "true"
        alts = []
        for im in self.doc.impls:
            tr = im.get("trait")
            if not tr or tr["path"].split("::")[-1] != trait:
                continue
            s = unify(conv(self.doc, im["for"]), t, {})
            if s is None:
                continue
            # trait generic arguments (e.g. SatisfyTraits<dyn Send>) must match too
            ia = []
            a = tr.get("args")
            if a and "angle_bracketed" in a:
                ia = [conv(self.doc, x["type"]) for x in a["angle_bracketed"]["args"] if "type" in x]
            ok = True
            for pa, ga in zip(ia, targs):
                s2 = unify(pa, ga, s)
                if s2 is None:
                    ok = False
                    break
                s = s2
            if not ok or len(ia) != len(targs):
                continue
            alts.append(self.impl_conditions(im, s))
        return F_or(*alts) if alts else "false"


def show(t):
    k = t[0]
    if k == "adt":
        return "adt#%d<%s>" % (t[1], ",".join(show(a) for a in t[2]))
    if k in ("abs", "param", "prim"):
        return t[1]
    if k == "dyn":
        return "dyn " + "+".join(sorted(t[1]))
    return str(t)


# ----------------------------------------------------------------------------- z3
def z3_check(vars_, asserts, timeout=30):
    lines = ["(set-option :timeout %d)" % (timeout * 1000)]
    for v in sorted(vars_):
        lines.append("(declare-const %s Bool)" % v)
    for a in asserts:
        lines.append("(assert %s)" % a)
    lines += ["(check-sat)"]
    p = subprocess.run(["z3", "-in"], input="\n".join(lines + ["(get-model)"]) + "\n", stdout=subprocess.PIPE, stderr=subprocess.STDOUT, text=True, timeout=timeout + 10)
    out = p.stdout
    first = out.strip().splitlines()[0] if out.strip() else "error"
    if first == "unsat":
        # re-run without get-model so that no `(error` can hide a dropped assertion
        p2 = subprocess.run(["z3", "-in"], input="\n".join(lines) + "\n", stdout=subprocess.PIPE, stderr=subprocess.STDOUT, text=True, timeout=timeout + 10)
        if "(error" in p2.stdout or p2.stdout.strip() != "unsat":
            return "error", p2.stdout[:300]
        return "unsat", ""
    if first == "sat":
        if "(error" in out:
            return "error", out[:300]
        model = {m.group(1): m.group(2) == "true" for m in re.finditer(r"\(define-fun (\w+) \(\) Bool\s+(true|false)\)", out)}
        return "sat", model
    return "error", out[:300]


# ----------------------------------------------------------------------------- rustdoc
def rustdoc_json(repo, work):
    work = Path(work)
    scratch = work / "rdsrc"
    if scratch.exists():
        shutil.rmtree(scratch)
    scratch.mkdir(parents=True)
    for item in ("Cargo.toml", "src"):
        s = Path(repo) / item
        if s.is_dir():
            shutil.copytree(s, scratch / item)
        else:
            shutil.copy(s, scratch / item)
    toml = (scratch / "Cargo.toml").read_text()
    toml = re.sub(r"\[dev-dependencies\].*?(?=\n\[|\Z)", "", toml, flags=re.S)
    toml = re.sub(r"\[\[bench\]\].*?(?=\n\[|\Z)", "", toml, flags=re.S)
    (scratch / "Cargo.toml").write_text(toml + "\n[workspace]\n")
    p = subprocess.run(["cargo", "+nightly", "rustdoc", "--offline", "--lib", "--target-dir", str(work / "rd_target"), "--", "-Z", "unstable-options",
                        "--output-format", "json", "--document-private-items"], cwd=scratch, env=ENV, stdout=subprocess.PIPE, stderr=subprocess.PIPE, text=True)
    f = work / "rd_target" / "doc" / "any_vec.json"
    if p.returncode != 0 or not f.exists():
        raise Inconclusive("rustdoc JSON failed: " + p.stderr[-400:])
    data = json.loads(f.read_text())
    shutil.rmtree(scratch, ignore_errors=True)
    shutil.rmtree(work / "rd_target", ignore_errors=True)
    return data


# ----------------------------------------------------------------------------- the property
def handle_types(doc, Tr):
    """(name, kind, type) for every public view / handle / iterator derived from AnyVec<Tr, M>"""
    M = ("abs", "M")
    T = ("abs", "T")
    S = doc.struct_by_path
    anyvec = ("adt", S("any_vec::AnyVec"), (Tr, M))
    ptr = ("adt", S("any_vec_ptr::AnyVecPtr"), (Tr, M))
    rawptr = ("adt", S("any_vec_ptr::AnyVecRawPtr"), (T, M))
    elem = ("adt", S("element::ElementPointer"), (ptr,))
    out = [
        ("ElementRef", "shared", ("adt", S("element::ElementRef"), (Tr, M))),
        ("ElementMut", "exclusive", ("adt", S("element::ElementMut"), (Tr, M))),
        ("Element (drained / spliced-out item)", "exclusive", elem),
        ("&Element", "shared", ("ref", False, elem)),
        ("IterRef", "shared", ("adt", S("iter::Iter"), (ptr, ("adt", S("iter::ElementRefIterItem"), (Tr, M))))),
        ("IterMut", "exclusive", ("adt", S("iter::Iter"), (ptr, ("adt", S("iter::ElementMutIterItem"), (Tr, M))))),
        ("Pop handle", "exclusive", ("adt", S("ops::temp::TempValue"), (("adt", S("ops::pop::Pop"), (ptr,)),))),
        ("Remove handle", "exclusive", ("adt", S("ops::temp::TempValue"), (("adt", S("ops::remove::Remove"), (ptr,)),))),
        ("SwapRemove handle", "exclusive", ("adt", S("ops::temp::TempValue"), (("adt", S("ops::swap_remove::SwapRemove"), (ptr,)),))),
        ("Drain", "exclusive", ("adt", S("ops::iter::Iter"), (("adt", S("ops::drain::Drain"), (ptr,)),))),
        ("LazyClone<ElementRef target>", "shared", ("adt", S("any_value::lazy_clone::LazyClone"), (elem,))),
        ("&AnyVec", "shared", ("ref", False, anyvec)),
        ("&mut AnyVec", "exclusive", ("ref", True, anyvec)),
    ]
    typed = [
        ("AnyVecRef<T>", "shared", ("adt", S("any_vec::AnyVecRef"), (T, M))),
        ("AnyVecMut<T>", "exclusive", ("adt", S("any_vec::AnyVecMut"), (T, M))),
        ("typed Drain (Iter<Drain<AnyVecRawPtr<T>>>)", "exclusive", ("adt", S("ops::iter::Iter"), (("adt", S("ops::drain::Drain"), (rawptr,)),))),
    ]
    return anyvec, out, typed


def queries(doc):
    """yield (label, sample-config dict, vars, formula-that-must-be-valid)"""
    for sname, sset in SETS.items():
        Tr = ("dyn", sset)
        sv = Solver(doc)
        anyvec, handles, typed = handle_types(doc, Tr)
        v_send = sv.holds("Send", anyvec)
        v_sync = sv.holds("Sync", anyvec)
        want_send = F_and("true" if "Send" in sset else "false", sv.var("M_send"), sv.var("Mem_send"))
        want_sync = F_and("true" if "Sync" in sset else "false", sv.var("M_sync"), sv.var("Mem_sync"))
        yield ("AnyVec<dyn %s, M>: Send  <=>  Send in the constraint set and M: Send and M::Mem: Send" % sname, sv, F_iff(v_send, want_send))
        yield ("AnyVec<dyn %s, M>: Sync  <=>  Sync in the constraint set and M: Sync and M::Mem: Sync" % sname, sv, F_iff(v_sync, want_sync))
        for name, kind, ty in handles:
            hs, hy = sv.holds("Send", ty), sv.holds("Sync", ty)
            need_send = v_sync if kind == "shared" else v_send
            yield ("%s of AnyVec<dyn %s, M>: Send only if the %s reference to the vector is Send" % (name, sname, kind), sv, F_imp(hs, need_send))
            yield ("%s of AnyVec<dyn %s, M>: Sync only if the vector is Sync" % (name, sname), sv, F_imp(hy, v_sync))
        # constructors: T: SatisfyTraits<Traits>  <=>  T has every declared capability
        T = ("abs", "T")
        sat = sv.holds("SatisfyTraits", T, (Tr,))
        want = F_and(*([sv.var("T_send")] if "Send" in sset else []) + ([sv.var("T_sync")] if "Sync" in sset else []) + ([sv.var("T_clone")] if "Cloneable" in sset else []))
        yield ("new::<T>() for AnyVec<dyn %s>: admitted exactly when T has every declared capability" % sname, sv, F_iff(sat, want))
        cl = sv.holds("Clone", anyvec)
        yield ("AnyVec<dyn %s, M>: Clone exactly when the constraint set has Cloneable" % sname, sv, F_iff(cl, "true" if "Cloneable" in sset else "false"))
    # typed views (independent of the constraint set)
    sv = Solver(doc)
    _, _, typed = handle_types(doc, ("dyn", SETS["None"]))
    eff_send = F_and(sv.var("T_send"), sv.var("M_send"), sv.var("Mem_send"))
    eff_sync = F_and(sv.var("T_sync"), sv.var("M_sync"), sv.var("Mem_sync"))
    for name, kind, ty in typed:
        hs, hy = sv.holds("Send", ty), sv.holds("Sync", ty)
        yield ("%s: Send only if a %s reference to a vector of T could be (T, M, M::Mem %s)" % (name, kind, "Sync" if kind == "shared" else "Send"), sv, F_imp(hs, eff_sync if kind == "shared" else eff_send))
        yield ("%s: Sync only if T, M, M::Mem are Sync" % name, sv, F_imp(hy, eff_sync))
    # capacity methods exist only for backends that support them
    sv = Solver(doc)
    anyvec_id = doc.struct_by_path("any_vec::AnyVec")
    found = 0
    for im in doc.impls:
        if im.get("trait") is not None:
            continue
        f = im["for"]
        if "resolved_path" not in f or f["resolved_path"]["id"] != anyvec_id:
            continue
        for it in im["items"]:
            item = doc.idx[str(it)]
            if "function" not in item["inner"] or item["name"] not in ("reserve", "reserve_exact", "shrink_to_fit", "shrink_to", "with_capacity", "with_capacity_in"):
                continue
            g = item["inner"]["function"]["generics"]
            s = {"M": ("abs", "M"), "Traits": ("dyn", SETS["None"]), "T": ("abs", "T")}
            conds = []
            for wp in g["where_predicates"]:
                if "bound_predicate" in wp:
                    ty = sv.normalize(subst(conv(doc, wp["bound_predicate"]["type"]), s))
                    for b in wp["bound_predicate"]["bounds"]:
                        conds.append(sv.bound(b, ty, s))
            for p in g["params"]:
                if "type" in p["kind"]:
                    for b in p["kind"]["type"]["bounds"]:
                        if "trait_bound" in b and b["trait_bound"]["trait"]["path"].split("::")[-1] in ("SatisfyTraits",):
                            continue
            avail = F_and(*conds)
            need = sv.var("M_sizeable") if item["name"].startswith("with_capacity") else sv.var("Mem_resizable")
            found += 1
            yield ("AnyVec::%s is callable only if the backend supports it" % item["name"], sv, F_imp(avail, need))
    if found < 6:
        raise Inconclusive("capacity methods not all found in the inherent impl (%d)" % found)


# ----------------------------------------------------------------------------- probe validation against rustc
PROBE_ELEMS = {"SendSync": ("String", True, True), "SendOnly": ("std::cell::Cell<u8>", True, False), "SyncOnly": ("std::sync::MutexGuard<'static, u8>", False, True), "Neither": ("std::rc::Rc<u8>", False, False)}


def probe_validate(repo, work, doc):
    """compile + run a probe crate that prints rustc's own verdicts for a sample of concrete configurations,
    and compare them with the encoder's formulas evaluated at the same configuration"""
    work = Path(work) / "probe"
    if work.exists():
        shutil.rmtree(work)
    (work / "src").mkdir(parents=True)
    (work / "Cargo.toml").write_text('[package]\nname = "probe"\nversion = "0.0.0"\nedition = "2021"\n[dependencies]\nany_vec = { path = "%s" }\nimpls = "1"\n[workspace]\n' % repo)
    cases = []
    lines = ["use any_vec::*; use any_vec::traits::*; use any_vec::mem::*; use any_vec::element::*; use any_vec::ops::*; use impls::impls;",
             "#[derive(Clone, Default)] struct NsM; // backend that is neither Send nor Sync",
             "struct NsMem(*mut u8, core::alloc::Layout);",
             "impl MemBuilder for NsM { type Mem = NsMem; fn build(&mut self, l: core::alloc::Layout) -> NsMem { NsMem(core::ptr::null_mut(), l) } }",
             "impl Mem for NsMem { fn as_ptr(&self) -> *const u8 { self.0 } fn as_mut_ptr(&mut self) -> *mut u8 { self.0 } fn element_layout(&self) -> core::alloc::Layout { self.1 } fn size(&self) -> usize { 0 } }",
             "fn main() {"]
    backends = {"Heap": ("Heap", dict(M_send=True, M_sync=True, Mem_send=True, Mem_sync=True)), "Stack": ("Stack<64>", dict(M_send=True, M_sync=True, Mem_send=True, Mem_sync=True)),
                "NsM": ("NsM", dict(M_send=True, M_sync=True, Mem_send=False, Mem_sync=False))}
    for sname, sset in SETS.items():
        for bname, (bty, bflags) in backends.items():
            tr = "dyn " + sname
            types = {
                "AnyVec": ("AnyVec<%s, %s>" % (tr, bty), None),
                "ElementRef": ("ElementRef<'static, %s, %s>" % (tr, bty), "ElementRef"),
                "ElementMut": ("ElementMut<'static, %s, %s>" % (tr, bty), "ElementMut"),
                "Element": ("Element<'static, %s, %s>" % (tr, bty), "Element (drained / spliced-out item)"),
                "IterRef": ("IterRef<'static, %s, %s>" % (tr, bty), "IterRef"),
                "IterMut": ("IterMut<'static, %s, %s>" % (tr, bty), "IterMut"),
                "Pop": ("Pop<'static, %s, %s>" % (tr, bty), "Pop handle"),
                "Remove": ("Remove<'static, %s, %s>" % (tr, bty), "Remove handle"),
                "SwapRemove": ("SwapRemove<'static, %s, %s>" % (tr, bty), "SwapRemove handle"),
                "Drain": ("Drain<'static, %s, %s>" % (tr, bty), "Drain"),
            }
            for tn, (ty, hname) in types.items():
                for trait in ("Send", "Sync"):
                    key = "%s|%s|%s|%s" % (sname, bname, tn, trait)
                    cases.append((key, sset, bflags, hname, trait))
                    lines.append('    println!("%s={}", impls!(%s: %s));' % (key, ty, trait))
    lines.append("}")
    (work / "src" / "main.rs").write_text("\n".join(lines) + "\n")
    p = subprocess.run(["cargo", "run", "--offline", "-q", "--target-dir", str(work / "target")], cwd=work, env=ENV, stdout=subprocess.PIPE, stderr=subprocess.PIPE, text=True)
    if p.returncode != 0:
        raise Inconclusive("probe crate failed to build/run: " + p.stderr[-500:])
    actual = dict(l.split("=", 1) for l in p.stdout.strip().splitlines() if "=" in l)
    dis = []
    n = 0
    for key, sset, bflags, hname, trait in cases:
        sv = Solver(doc)
        anyvec, handles, _ = handle_types(doc, ("dyn", sset))
        ty = anyvec if hname is None else [h for h in handles if h[0] == hname][0][2]
        f = sv.holds(trait, ty)
        # evaluate the formula at this configuration with z3 (all variables fixed)
        asserts = [f]
        for v in sv.vars:
            val = bflags.get(v, True)
            asserts.append(v if val else "(not %s)" % v)
        r, _ = z3_check(sv.vars, asserts)
        model_says = (r == "sat")
        n += 1
        if str(model_says).lower() != actual.get(key):
            dis.append("%s: encoder %s, rustc %s" % (key, model_says, actual.get(key)))
    shutil.rmtree(work, ignore_errors=True)
    return n, dis


MARK = {(True, True): "String", (True, False): "std::cell::Cell<u8>", (False, True): "std::sync::MutexGuard<'static, u8>", (False, False): "std::rc::Rc<u8>"}
HANDLE_TY = {
    "ElementRef": "ElementRef<'static, {tr}, {m}>", "ElementMut": "ElementMut<'static, {tr}, {m}>", "Element (drained / spliced-out item)": "Element<'static, {tr}, {m}>",
    "&Element": "&'static Element<'static, {tr}, {m}>", "IterRef": "IterRef<'static, {tr}, {m}>", "IterMut": "IterMut<'static, {tr}, {m}>",
    "Pop handle": "Pop<'static, {tr}, {m}>", "Remove handle": "Remove<'static, {tr}, {m}>", "SwapRemove handle": "SwapRemove<'static, {tr}, {m}>", "Drain": "Drain<'static, {tr}, {m}>",
    "&AnyVec": "&'static AnyVec<{tr}, {m}>", "&mut AnyVec": "&'static mut AnyVec<{tr}, {m}>",
    "AnyVecRef<T>": "AnyVecRef<'static, {t}, {m}>", "AnyVecMut<T>": "AnyVecMut<'static, {t}, {m}>",
}


def probe_replay(repo, work, label, model):
    """Replay of a sat model against the real compiler: the contradicting configuration is instantiated with marker
    element / backend types (a backend type per Send/Sync flag combination) and rustc's own verdicts are printed.
    Returns a dict of facts, or None when the obligation kind has no probe template."""
    m = re.match(r"(.+?) of AnyVec<dyn (.+?), M>: (Send|Sync) only if", label) or re.match(r"(AnyVecRef<T>|AnyVecMut<T>|typed Drain.*?): (Send|Sync) only if", label)
    if not m:
        return None
    if len(m.groups()) == 3:
        hname, sname, trait = m.group(1), m.group(2), m.group(3)
    else:
        hname, sname, trait = m.group(1), "None", m.group(2)
    if hname not in HANDLE_TY:
        return None
    g = lambda k: bool(model.get(k, True))
    work = Path(work) / "probe_replay"
    if work.exists():
        shutil.rmtree(work)
    (work / "src").mkdir(parents=True)
    (work / "Cargo.toml").write_text('[package]\nname = "probe"\nversion = "0.0.0"\nedition = "2021"\n[dependencies]\nany_vec = { path = "%s" }\nimpls = "1"\n[workspace]\n' % repo)
    tparams = dict(tr="dyn " + sname, m="MB", t=MARK[(g("T_send"), g("T_sync"))])
    hty = HANDLE_TY[hname].format(**tparams)
    src = """use any_vec::*; use any_vec::traits::*; use any_vec::mem::*; use any_vec::element::*; use any_vec::ops::*; use impls::impls; use core::marker::PhantomData; use core::alloc::Layout;
#[derive(Clone, Default)] struct MB(PhantomData<%s>);
struct MBMem(PhantomData<%s>, Layout);
impl MemBuilder for MB { type Mem = MBMem; fn build(&mut self, l: Layout) -> MBMem { MBMem(PhantomData, l) } }
impl Mem for MBMem { fn as_ptr(&self) -> *const u8 { core::ptr::null() } fn as_mut_ptr(&mut self) -> *mut u8 { core::ptr::null_mut() } fn element_layout(&self) -> Layout { self.1 } fn size(&self) -> usize { 0 } }
fn main() {
    println!("handle_%s={}", impls!(%s: %s));
    println!("vec_send={}", impls!(AnyVec<%s, MB>: Send));
    println!("vec_sync={}", impls!(AnyVec<%s, MB>: Sync));
    println!("m_send={} m_sync={} mem_send={} mem_sync={}", impls!(MB: Send), impls!(MB: Sync), impls!(MBMem: Send), impls!(MBMem: Sync));
}
""" % (MARK[(g("M_send"), g("M_sync"))], MARK[(g("Mem_send"), g("Mem_sync"))], trait, hty, trait, tparams["tr"], tparams["tr"])
    (work / "src" / "main.rs").write_text(src)
    p = subprocess.run(["cargo", "run", "--offline", "-q", "--target-dir", str(work / "target")], cwd=work, env=ENV, stdout=subprocess.PIPE, stderr=subprocess.PIPE, text=True)
    facts = {"probe_type": hty, "trait": trait}
    if p.returncode != 0:
        facts["error"] = p.stderr[-300:]
    else:
        for tok in p.stdout.split():
            if "=" in tok:
                k, v = tok.split("=", 1)
                facts[k] = (v == "true")
    shutil.rmtree(work, ignore_errors=True)
    return facts


def part(prop):
    def run(repo, work, tier, seed):
        t0 = time.time()
        verif = HERE.parent
        rep = {"engine": "traitsmt", "lines": [], "violations": 0, "inconclusive": 0, "coverage": {"obligations": 0, "discharged": 0, "functions": [], "samples": [], "solver_s": 0.0}}
        known = []
        kp = verif / "known_findings.json"
        if kp.exists():
            known = [k for k in json.loads(kp.read_text()).get("findings", []) if k.get("engine") == "traitsmt" and k["property"] == prop and k.get("status") == "known"]
        try:
            doc = Doc(rustdoc_json(repo, Path(work) / "traitsmt"))
            nprobe, dis = probe_validate(repo, Path(work) / "traitsmt", doc)
            rep["coverage"]["encoder_validation"] = {"configurations_compared_with_rustc": nprobe, "disagreements": dis[:10]}
            if dis:
                rep["lines"].append("INCONCLUSIVE property=%s traitsmt: the encoder disagrees with rustc on %d of %d sampled facts (e.g. %s)" % (prop, len(dis), nprobe, dis[0]))
                rep["inconclusive"] += 1
                return rep
            seen_known = set()
            for label, sv, formula in queries(doc):
                rep["coverage"]["obligations"] += 1
                ts = time.time()
                r, model = z3_check(sv.vars, [F_not(formula)])
                rep["coverage"]["solver_s"] += time.time() - ts
                if r == "unsat":
                    rep["coverage"]["discharged"] += 1
                    if len(rep["coverage"]["samples"]) < 4:
                        rep["coverage"]["samples"].append({"obligation": label, "query": "exists configuration. NOT (%s)" % formula[:300], "answer": "unsat"})
                elif r == "sat":
                    k = None
                    for kk in known:
                        if re.search(kk["match"]["obligation"], label):
                            k = kk
                    cfg = {a: b for a, b in sorted(model.items())}
                    if k:
                        if k["id"] not in seen_known:
                            seen_known.add(k["id"])
                            rep["lines"].append("KNOWN-FINDING: property=%s %s [traitsmt: %s; configuration %s]" % (prop, k["what"], label, json.dumps(cfg)))
                        rep["coverage"].setdefault("known_findings_hit", []).append(label)
                        continue
                    (verif / "replays").mkdir(exist_ok=True)
                    rp = verif / "replays" / ("%s-traitsmt-%d.json" % (prop, abs(hash(label)) % 1000000))
                    facts = probe_replay(repo, Path(work) / "traitsmt", label, model) if rep["violations"] < 3 else None
                    rp.write_text(json.dumps({"obligation": label, "configuration": cfg, "formula": formula, "rustc_probe": facts}, indent=1))
                    if facts is not None and "error" not in facts:
                        need = "vec_sync" if ("shared" in label or "Sync only" in label or "AnyVecRef" in label) else "vec_send"
                        hk = [k for k in facts if k.startswith("handle_")][0]
                        if not (facts[hk] and not facts.get(need, False)) and "of AnyVec<" in label:
                            rep["inconclusive"] += 1
                            rep["lines"].append("INCONCLUSIVE property=%s traitsmt: solver model for `%s` did not reproduce with rustc (%s): the encoder is suspect" % (prop, label, json.dumps(facts)))
                            continue
                    rep["violations"] += 1
                    rep["lines"].append("VIOLATION property=%s replay=%s" % (prop, rp))
                    rep["lines"].append("  traitsmt: %s" % label)
                    rep["lines"].append("  contradicting configuration: %s" % json.dumps(cfg))
                    rep["lines"].append("  rustc on a probe program instantiating it: %s" % (json.dumps(facts) if facts is not None else "(no probe template for this obligation kind)"))
                else:
                    rep["inconclusive"] += 1
                    rep["lines"].append("INCONCLUSIVE property=%s traitsmt solver: %s on `%s`" % (prop, str(model)[:120], label))
            rep["coverage"]["functions"] = ["explicit impl headers + struct field types of any_vec (rustdoc JSON): Send/Sync/Clone/SatisfyTraits/CloneFnTrait impls, AnyVec capacity-method where clauses"]
        except Inconclusive as e:
            rep["inconclusive"] += 1
            rep["lines"].append("INCONCLUSIVE property=%s traitsmt: %s" % (prop, e))
        rep["coverage"]["solver_s"] = round(rep["coverage"]["solver_s"], 2)
        rep["coverage"]["wall_s"] = round(time.time() - t0, 1)
        shutil.rmtree(Path(work) / "traitsmt", ignore_errors=True)
        return rep
    return run


def parts_for(prop):
    return [part(prop)] if prop == "C15" else []


if __name__ == "__main__":
    r = part("C15")("/repo", "/verif/.work/traitsmt_cli", "quick", 0)
    print("\n".join(r["lines"]))
    print(json.dumps({k: v for k, v in r["coverage"].items() if k != "samples"}, indent=1))
    print("violations", r["violations"], "inconclusive", r["inconclusive"])
