"""C04 harness instances: type mismatch rejection, downcast guards, type reports."""
from harnesses import *  # noqa
from ht_c01 import P
from ht_c02 import P2

OFF = {"u64": "u64", "i64": "i64", "f64": "f64", "a8": "[u8; 8]", "W8": "W8", "B1": "B1", "D24D": "D24D", "W8D": "W8D", "B3D": "B3D"}
VECS = ["W8", "W8D", "B3D", "D24D", "B1"]


def offer(entry, tr, b, v, o, L=2, tier="quick"):
    same = (v == o)
    name = "c04_offer_%s__%s_%s_%s_gets_%s__L%d" % (entry.lower(), tr, b, v, o, L)
    call = "c04::offer_type::<%s, %s, %s, %s>(%s, c04::Entry::%s)" % (TR[tr], bk(b, v, L + 1), v, OFF[o], P(L + 1, "s%d" % L, "s%d" % L), entry)
    H(name, call, ["C04"], tier=tier, unwind=unwind_for(v, L + 2), expect=[] if same else [X_TYPE], must_panic=not same,
      dims=dict(L=L, vector=v, offered=o, entry=entry, backend=b, traits=tr, shape_symbolic=True), role="c04_offer_%s" % entry.lower())


def splice_t(tr, b, v, o, L=2, tier="quick", shape=(2, 0, 1), n=1):
    """concrete (len, start, end) and number of good items before the mismatching one (allocation sizes stay constant)"""
    ln, s, e = shape
    name = "c04_splice__%s_%s_%s_gets_%s__l%d_s%d_e%d_n%d" % (tr, b, v, o, ln, s, e, n)
    call = "c04::splice_type::<%s, %s, %s, %s>(%s)" % (TR[tr], bk(b, v, L + 3), v, OFF[o], P2(L + 3, ln, s, e, 0, n))
    H(name, call, ["C04"], tier=tier, unwind=unwind_for(v, L + 4), expect=[X_TYPE], must_panic=True,
      dims=dict(len=ln, start=s, end=e, vector=v, offered=o, good_items_before=n, backend=b, traits=tr, shape_symbolic=False, payloads_symbolic=True), role="c04_splice")


def swap_t(pair, tr, b, v, o, L=2, tier="quick"):
    same = (v == o)
    name = "c04_swap_%s__%s_%s_%s_with_%s__L%d" % (pair.lower(), tr, b, v, o, L)
    call = "c04::swap_type::<%s, %s, %s, %s>(%s, c04::SwapPair::%s)" % (TR[tr], bk(b, v, L), v, OFF[o], P(L, "s%d" % L, "s%d" % L), pair)
    H(name, call, ["C04", "C13"] if same else ["C04"], tier=tier, unwind=unwind_for(v, L + 1), expect=[] if same else [X_TYPE], must_panic=not same,
      dims=dict(L=L, vector=v, other=o, pair=pair, backend=b, traits=tr, shape_symbolic=True), role="c04_swap_%s" % pair.lower())


def down(tr, b, v, o, L=2, tier="quick"):
    name = "c04_downcasts__%s_%s_%s_as_%s__L%d" % (tr, b, v, o, L)
    call = "c04::downcasts::<%s, %s, %s, %s>(%s)" % (TR[tr], bk(b, v, L), v, OFF[o], P(L, "s%d" % L, "s%d" % L))
    H(name, call, ["C04"], tier=tier, unwind=unwind_for(v, L + 1), dims=dict(L=L, vector=v, asked=o, backend=b, traits=tr, shape_symbolic=True), role="c04_downcasts")


def downlazy(tr, b, v, o, L=2, tier="quick"):
    name = "c04_downlazy__%s_%s_%s_as_%s__L%d" % (tr, b, v, o, L)
    call = "c04::downcasts_lazy::<%s, %s, %s, %s>(%s)" % (TR[tr], bk(b, v, L), v, OFF[o], P(L, "s%d" % L, "s%d" % L))
    H(name, call, ["C04", "C09"], tier=tier, unwind=unwind_for(v, L + 1), dims=dict(L=L, vector=v, asked=o, backend=b, traits=tr, shape_symbolic=True), role="c04_downlazy")


ENTRIES = ["PushWrapper", "InsertWrapper", "PushRaw", "InsertRaw", "PushHandle", "InsertHandle"]
PAIRS = ["ElemMutWrapper", "ElemMutRaw", "HandleWrapper", "HandleRaw", "WrapperElemMut", "RawElemMut"]
SAME8 = ["u64", "i64", "f64", "a8", "W8"]


def define():
    # quick: same-size/same-align pairs (the dangerous ones) on every entry point, plus matching controls
    q = [("W8", "u64"), ("W8", "i64"), ("W8D", "W8"), ("W8", "f64"), ("W8D", "a8"), ("B3D", "B1")]
    for i, entry in enumerate(ENTRIES):
        v, o = q[i % len(q)]
        offer(entry, "none", "heap" if i % 2 == 0 else "stack", v, o)
    offer("PushRaw", "none", "heap", "W8", "W8")
    offer("InsertHandle", "none", "stack", "W8D", "W8D")
    offer("InsertWrapper", "none", "heap", "B3D", "B3D")
    splice_t("none", "heap", "W8D", "W8", shape=(2, 0, 1), n=1)
    splice_t("none", "stack", "W8", "u64", shape=(2, 1, 2), n=0)
    splice_t("none", "heap", "B3D", "B1", shape=(1, 1, 1), n=2, tier="rot2")
    for i, pair in enumerate(PAIRS):
        v, o = q[(i + 2) % len(q)]
        swap_t(pair, "none", "heap" if i % 2 else "stack", v, o)
    swap_t("ElemMutRaw", "none", "heap", "W8D", "W8D")
    swap_t("HandleWrapper", "none", "heap", "B3D", "B3D")
    swap_t("HandleRaw", "none", "stack", "B3D", "B3D")
    swap_t("ElemMutWrapper", "none", "heap", "W8", "W8")
    swap_t("RawElemMut", "none", "stack", "W8", "W8")
    for (v, o) in (("W8", "u64"), ("W8D", "W8D"), ("B3D", "B1"), ("W8", "a8")):
        down("none", "heap" if v != "B3D" else "stack", v, o)
    downlazy("clone", "heap", "W8D", "W8")
    downlazy("clone", "heap", "W8D", "W8D")
    # rotation pool: the dangerous same-size / same-align pairs on every entry point; everything else is thorough only
    for v in ("W8", "W8D"):
        for o in SAME8 + ["W8D"]:
            for entry in ENTRIES:
                offer(entry, "none", "heap", v, o, tier="rot16")
            for pair in PAIRS:
                swap_t(pair, "none", "heap", v, o, tier="rot16")
            down("none", "heap", v, o, tier="rot16")
            if v != o:
                splice_t("none", "heap", v, o, tier="rot16", shape=(2, 0, 1), n=1)
    # thorough: all ordered pairs
    for v in VECS:
        for o in OFF:
            for entry in ENTRIES:
                offer(entry, "none", "heap", v, o, tier="thorough")
            down("none", "heap", v, o, tier="thorough")
            if v != o:
                for sh, n in (((2, 0, 1), 1), ((2, 2, 2), 0), ((1, 0, 1), 2)):
                    splice_t("none", "heap", v, o, tier="thorough", shape=sh, n=n)
            for pair in PAIRS:
                swap_t(pair, "none", "heap", v, o, tier="thorough")
    for tr in ("clone", "call"):
        for o in ("W8", "W8D", "u64"):
            downlazy(tr, "heap", "W8D", o, tier="thorough")
            offer("PushRaw", tr, "heap", "W8D", o, tier="thorough")
