#!/usr/bin/env python3
"""Collects the seeded-change detection runs (.work/seedruns/*.out) into seeded/*/meta.json (`detected_by`,
`what_ran`) and into the table between the SEEDS markers of DESIGN.md."""
import glob
import json
import re
from pathlib import Path

V = Path(__file__).resolve().parent
rows = []
for d in sorted(glob.glob(str(V / "seeded" / "S*"))):
    sid = Path(d).name
    meta = json.loads((Path(d) / "meta.json").read_text())
    runs = []
    for out in sorted(glob.glob(str(V / ".work" / "seedruns" / (sid + "_C*.out")))):
        prop = re.search(r"_(C\d+)\.out$", out).group(1)
        text = Path(out).read_text()
        viol = re.findall(r"^VIOLATION property=\S+ replay=\S+\n  (.*)\n", text, flags=re.M)
        harn = []
        for v in viol:
            m = re.match(r"harness=(\S+)\s+(.*)", v)
            if m:
                harn.append("%s: %s" % (m.group(1), m.group(2).strip('"')[:90]))
            else:
                harn.append(v[:150])
        native = re.findall(r"reproduced natively", text)
        last = text.strip().splitlines()[-1] if text.strip() else ""
        rc = re.search(r"-> exit (\d)", last)
        runs.append({"property": prop, "exit": int(rc.group(1)) if rc else None, "violations": len(viol), "first_reports": harn[:3], "natively_reproduced": len(native)})
    if runs:
        caught = [r for r in runs if r["exit"] == 1]
        meta["detected_by"] = [{"check": "python3 run.py %s --tier quick" % r["property"], "violations": r["violations"], "reports": r["first_reports"], "natively_reproduced_replays": r["natively_reproduced"]} for r in caught] or "NOT DETECTED by: " + ", ".join(r["property"] for r in runs)
        meta["what_ran"] = "git -C /repo apply seeded/%s/patch.diff; %s; git -C /repo checkout -- .  (seedrun.sh)" % (sid, "; ".join("python3 run.py %s --tier quick --max-replays 1 -> exit %s" % (r["property"], r["exit"]) for r in runs))
        (Path(d) / "meta.json").write_text(json.dumps(meta, indent=1))
    det = "—"
    if runs:
        det = "; ".join("%s exit %s (%d)%s" % (r["property"], r["exit"], r["violations"], (": " + r["first_reports"][0][:110]) if r["first_reports"] else "") for r in runs)
    rows.append("| %s | %s | %s | %s |" % (sid, meta["property"], meta["change"][:140].replace("|", "/"), det.replace("|", "/")))

table = "| seed | property | change | quick checks run against it: exit code (violations reported): first report |\n|---|---|---|---|\n" + "\n".join(rows)
p = V / "DESIGN.md"
s = p.read_text()
if "<!-- SEEDS-BEGIN -->" in s:
    s = re.sub(r"<!-- SEEDS-BEGIN -->.*<!-- SEEDS-END -->", "<!-- SEEDS-BEGIN -->\n" + table + "\n<!-- SEEDS-END -->", s, flags=re.S)
    p.write_text(s)
print(table)
