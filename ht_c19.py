"""C19: the stack-backend operation space on a build of any_vec WITHOUT the alloc feature, next to the
same harness bodies on the default build (identical oracle => identical behaviour)."""
import copy
from harnesses import *  # noqa
import harnesses as HT
from ht_c01 import ins, rem, instyped, remtyped, clear, oor
from ht_c02 import drain, splice, badrange
from ht_c11 import over, stack_cap, stackn_cap


def define():
    before = set(HT._BYNAME)

    # stack-only instances (second vector also on a stack backend)
    ins("Raw", False, "none", "stack", "stack", "B3D", also=("C19",))
    ins("Wrapper", True, "none", "stackn", "stack", "B3D", also=("C19",))
    ins("YRemove", False, "none", "stack", "stackn", "B3D", also=("C19",))
    ins("YDrain", False, "none", "stack", "stack", "H2", also=("C19",), tier="rot2")
    instyped(False, "none", "stack", "B3D", also=("C19",))
    rem("Remove", "Drop", "none", "stack", "stack", "B3D", also=("C19",))
    rem("SwapRemove", "PushY", "none", "stack", "stackn", "B3D", also=("C19",))
    rem("Pop", "Downcast", "none", "stackn", "stack", "W8D", also=("C19",), tier="rot2")
    remtyped("Remove", "none", "stack", "B3D", also=("C19",))
    clear(False, "none", "stack", "B3D", also=("C19",))
    oor("Remove", "none", "stack", "B3D", also=("C19",))
    oor("Insert", "none", "stackn", "B3D", also=("C19",))
    oor("Get", "none", "stack", "B3D", also=("C19",))
    drain(False, "none", "stack", "B3D", also=("C19",))
    drain(True, "none", "stackn", "B3D", fb=1, also=("C19",))
    splice(False, "Raw", "none", "stack", "B3D", r=1, also=("C19",))
    splice(True, "Wrapper", "none", "stack", "B3D", r=1, also=("C19",))
    badrange("EndAfterLen", "Drain", "none", "stack", "B3D", also=("C19",))
    # instances created here belong to C19 only (their home properties have their own selections)
    for e in HT._ENTRIES:
        if e["name"] not in before:
            e["props"] = ["C19"]
    for e in HT._ENTRIES:
        if e["name"].startswith("c11_over_") or e["name"].startswith("c11_stackcap") or e["name"].startswith("c11_stackncap"):
            if e["tier"] == "quick" and "C19" not in e["props"]:
                e["props"].append("C19")
                e.setdefault("prop_tier", {})["C19"] = "quick" if e["name"].startswith("c11_over_") else "rot2"
    # the no-alloc twins
    twins = []
    for e in HT._ENTRIES:
        if "C19" in e["props"] and not e.get("noalloc"):
            t = copy.deepcopy(e)
            t["name"] = e["name"] + "__na"
            t["props"] = ["C19"]
            t["noalloc"] = True
            t["rot_key"] = e["name"]
            t["role"] = e["role"] + "_na"
            t["dims"] = dict(e["dims"], any_vec_features="none (no alloc)")
            twins.append(t)
    for t in twins:
        if t["name"] not in HT._BYNAME:
            HT._BYNAME[t["name"]] = t
            HT._ENTRIES.append(t)
