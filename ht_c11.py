"""C11 harness instances: stated capacity grid, capacity boundary, no heap use (forbidding allocator stubs)."""
from harnesses import *  # noqa
from ht_c02 import P2

FORBID = [("std::alloc::alloc", "crate::c11::forbid_alloc"), ("std::alloc::dealloc", "crate::c11::forbid_dealloc"), ("std::alloc::realloc", "crate::c11::forbid_realloc")]


def stack_cap(S, elem, tier="quick"):
    H("c11_stackcap__S%d_%s" % (S, elem), "c11::stack_cap::<%d, %s>()" % (S, elem), ["C11"], tier=tier, unwind=unwind_for(elem, 2), stubs=FORBID,
      dims=dict(SIZE=S, elem=elem, elem_size=ELEMS[elem][0], expected=("usize::MAX" if ELEMS[elem][0] == 0 else S // ELEMS[elem][0])), role="c11_stackcap")


def stackn_cap(N, S, elem, tier="quick"):
    fits = N * ELEMS[elem][0] <= S
    H("c11_stackncap__N%d_S%d_%s" % (N, S, elem), "c11::stackn_cap::<%d, %d, %s>()" % (N, S, elem), ["C11"], tier=tier, unwind=unwind_for(elem, 2), stubs=FORBID,
      expect=[] if fits else [X_STACKN], must_panic=not fits, dims=dict(N=N, SIZE=S, elem=elem, fits=fits), role="c11_stackncap")


def over(op, tr, b, elem, L=2, tier="quick"):
    name = "c11_over_%s__%s_%s_%s__L%d" % (op.lower(), tr, b, elem, L)
    call = "c11::over_h::<%s, %s, %s>(%s, c11::Over::%s)" % (TR[tr], bk(b, elem, L), elem, P2(L, "s%d" % L, "s%d" % L, "s%d" % L, 0, "s3"), op)
    H(name, call, ["C11"], tier=tier, unwind=unwind_for(elem, L + 3), stubs=FORBID, expect=[X_CAP], must_panic=True,
      dims=dict(L=L, op=op, elem=elem, backend=b, traits=tr, result_len="capacity + 1", shape_symbolic=True), role="c11_over_%s" % op.lower())


def define():
    for elem in ("B3D", "W8"):
        sz = ELEMS[elem][0]
        for S in (0, sz - 1, sz, sz + 1, 2 * sz, 3 * sz - 1):
            stack_cap(S, elem, tier="quick" if S in (sz - 1, 2 * sz) else "rot3")
    stack_cap(0, "Z0D")
    # power-of-two element sizes larger than their alignment
    stack_cap(7, "F4")
    stack_cap(8, "F4", tier="rot3")
    stack_cap(23, "P8D")
    stack_cap(16, "P8D", tier="rot3")
    stack_cap(7, "Z0")
    stack_cap(513, "D24D", tier="rot2")
    for (N, S, elem) in ((2, 6, "B3D"), (2, 5, "B3D"), (0, 0, "W8"), (1, 7, "W8"), (3, 24, "W8D"), (4, 0, "Z0D"), (1, 160, "L160D"), (2, 319, "L160D")):
        stackn_cap(N, S, elem, tier="quick" if S in (6, 5, 7, 0) else "rot2")
    for i, op in enumerate(("Push", "Insert", "TPush", "TInsert", "Splice", "TSplice")):
        over(op, "none", "stack" if i % 2 == 0 else "stackn", "B3D")
    # everything that runs on a stack backend in C01/C02/C08 also runs with heap use forbidden
    for e in all_entries_named(("c01_", "c02_", "c08_")):
        if "C11" in e["props"] and not any(s[0] == "std::alloc::alloc" for s in e["stubs"]):
            by_heap = e["dims"].get("backend2") in ("heap", "reloc") or e["dims"].get("target_backend") in ("heap", "reloc")
            if not by_heap and e["dims"].get("backend") in ("stack", "stackn"):
                e["stubs"] = list(e["stubs"]) + FORBID
            # under C11 these borrowed instances rotate by seed (their home property runs them every time)
            if e["tier"] == "quick":
                e.setdefault("prop_tier", {})["C11"] = "rot4"
    # thorough
    for elem in ELEMS:
        sz = ELEMS[elem][0]
        for S in sorted(set((0, max(sz - 1, 0), sz, sz + 1, 2 * sz, 3 * sz + 1))):
            stack_cap(S, elem, tier="thorough")
        for N in (0, 1, 2, 3):
            for S in sorted(set((max(N * sz - 1, 0), N * sz, N * sz + 1))):
                stackn_cap(N, S, elem, tier="thorough")
    for op in ("Push", "Insert", "TPush", "TInsert", "Splice", "TSplice"):
        for b in ("stack", "stackn"):
            for elem in ("B3D", "W8D", "H2"):
                over(op, "none", b, elem, L=3, tier="thorough")
