"""C02 harness instances: drain / splice / invalid ranges."""
from harnesses import *  # noqa
from ht_c01 import props_for


def P2(cap, ln, start, end, fb, r, f=None, b=None, form=None):
    """fb: loop bound for consumption; f/b default to symbolic 0..=fb. form: RangeBounds form (default: all 9
    forms symbolic when the shape is symbolic, the plain `s..e` form when the range is concrete - a symbolic form
    would make the concrete bounds non-constant for CBMC's constant propagation)"""
    f = ("s%d" % fb) if f is None else f
    b = ("s%d" % fb) if b is None else b
    if form is None:
        form = "s8" if (isinstance(start, str) or isinstance(end, str)) else 0
    return "c02::P2 { cap: %s, len: %s, start: %s, end: %s, fb: %d, f: %s, b: %s, r: %s, form: %s }" % (dim(cap), dim(ln), dim(start), dim(end), fb, dim(f), dim(b), dim(r), dim(form))


def tg(x):
    return x if isinstance(x, str) else "f%d" % x


def drain(typed, tr, b, elem, L=3, fb=2, tier="quick", cap=None, ln=None, start=None, end=None, f=None, bk_=None, also=()):
    cap = L if cap is None else cap
    ln = "s%d" % L if ln is None else ln
    start = "s%d" % L if start is None else start
    end = "s%d" % L if end is None else end
    f = ("s%d" % fb) if f is None else f
    bb = ("s%d" % fb) if bk_ is None else bk_
    name = "c02_drain_%s__%s_%s_%s__c%s_l%s_s%s_e%s_f%s_b%s" % ("typed" if typed else "erased", tr, b, elem, tg(cap), tg(ln), tg(start), tg(end), tg(f), tg(bb))
    call = "c02::drain_h::<%s, %s, %s>(%s, %s)" % (TR[tr], bk(b, elem, cap), elem, P2(cap, ln, start, end, max(fb, dmax(f), dmax(bb)), 0, f, bb), "true" if typed else "false")
    H(name, call, props_for(b, base=("C02",), also=also), tier=tier, unwind=unwind_for(elem, L + 1, not typed),
      dims=dict(cap=cap, len=ln, start=start, end=end, front=f, back=bb, elem=elem, backend=b, traits=tr, range_forms="all 9 (Bound,Bound) forms symbolic", shape_symbolic=isinstance(ln, str)),
      role="c02_drain_%s" % ("typed" if typed else "erased"))


def splice(typed, kind, tr, b, elem, L=3, fb=1, r=1, tier="quick", cap=None, ln=None, start=None, end=None, f=None, bk_=None, also=(), role=None):
    capv = (L + dmax(r)) if cap is None else cap
    ln = "s%d" % L if ln is None else ln
    start = "s%d" % L if start is None else start
    end = "s%d" % L if end is None else end
    f = ("s%d" % fb) if f is None else f
    bb = ("s%d" % fb) if bk_ is None else bk_
    name = "c02_splice_%s_%s__%s_%s_%s__c%s_l%s_s%s_e%s_f%s_b%s_r%s" % ("typed" if typed else "erased", kind.lower(), tr, b, elem, tg(capv), tg(ln), tg(start), tg(end), tg(f), tg(bb), tg(r))
    call = "c02::splice_h::<%s, %s, %s>(%s, %s, c02::RepKind::%s)" % (TR[tr], bk(b, elem, capv), elem, P2(capv, ln, start, end, max(fb, dmax(f), dmax(bb)), r, f, bb), "true" if typed else "false", kind)
    H(name, call, props_for(b, base=("C02",), also=also), tier=tier, unwind=unwind_for(elem, max(capv, L + dmax(r)) + 1, not typed),
      dims=dict(cap=capv, len=ln, start=start, end=end, front=f, back=bb, replacement=r, rep_kind=kind, elem=elem, backend=b, traits=tr, shape_symbolic=isinstance(ln, str)),
      role=role or "c02_splice_%s_%s" % ("typed" if typed else "erased", kind.lower()))


def badrange(bad, op, tr, b, elem, L=3, tier="quick", also=()):
    name = "c02_badrange_%s_%s__%s_%s_%s__L%d" % (bad.lower(), op.lower(), tr, b, elem, L)
    call = "c02::bad_range::<%s, %s, %s>(%s, c02::BadRange::%s, c02::RangeOp::%s)" % (TR[tr], bk(b, elem, L), elem, P2(L, "s%d" % L, "s%d" % L, "s%d" % L, 0, 0), bad, op)
    H(name, call, props_for(b, base=("C02",), also=also), tier=tier, unwind=unwind_for(elem, L + 1), expect=[X_RANGE], must_panic=True,
      dims=dict(L=L, bad=bad, op=op, elem=elem, backend=b, traits=tr, shape_symbolic=True), role="c02_badrange_%s" % bad.lower())


def shapes(L):
    for ln in range(L + 1):
        for s in range(ln + 1):
            for e in range(s, ln + 1):
                yield ln, s, e


BADS = ["StartAfterEnd", "EndAfterLen", "InclusiveMax", "ExcludedMaxStart"]
ROPS = ["Drain", "Splice", "TDrain", "TSplice"]


def define():
    # drain: symbolic shape (len, range, range form, front/back consumption) on every backend kind
    drain(False, "none", "heap", "W8D")
    drain(False, "none", "stack", "B3D")
    drain(True, "none", "heap", "B3D")
    drain(False, "none", "heap", "Z0D", fb=1)
    drain(False, "none", "reloc", "B3D", fb=1)
    # splice, symbolic shape: fixed-capacity storage (no reallocation inside the query)
    splice(False, "Raw", "none", "stack", "B3D", r=0)
    splice(False, "Wrapper", "none", "stack", "B3D", r=1)
    splice(False, "Raw", "none", "stack", "W8D", r=2, tier="rot2")
    splice(False, "Raw", "none", "stackn", "B3D", r=2)
    splice(True, "Wrapper", "none", "stack", "B3D", r=1)
    splice(True, "Wrapper", "none", "stack", "H2", r=2, fb=0)
    # splice on resizable storage: concrete (len, range, r) per query - payloads, range form and consumption symbolic.
    # cap == len, so every r > end-start reallocates. Seeded rotation in quick, all shapes in thorough.
    n = 0
    for (ln, s, e) in shapes(3):
        for r in (0, 1, 2):
            n += 1
            b = ("heap", "reloc")[n % 2]
            kind = ("Raw", "Wrapper")[(n // 2) % 2]
            quick = (ln, s, e, r) in ((3, 1, 2, 2), (2, 0, 2, 1), (3, 3, 3, 1), (0, 0, 0, 2))
            splice(False, kind, "none", b, "B3D", L=3, cap=ln, ln=ln, start=s, end=e, r=r, fb=1, tier="quick" if quick else "rot12")
    splice(True, "Wrapper", "none", "heap", "W8D", L=3, cap=3, ln=3, start=1, end=2, r=2, fb=1)
    # result exactly fills a fixed capacity (symbolic replacement length)
    splice(False, "Raw", "none", "stack", "B3D", L=3, cap=3, ln=3, start=1, end=2, r="s1", fb=0, role="c02_splice_fit")
    # the same with everything concrete (cheap): a full fixed-capacity vector whose result is full again must not be refused
    splice(False, "Raw", "none", "stack", "B3D", L=3, cap=3, ln=3, start=1, end=2, r=1, fb=0, role="c02_splice_fit")
    splice(True, "Wrapper", "none", "stackn", "B3D", L=2, cap=2, ln=2, start=0, end=1, r=1, fb=1, role="c02_splice_fit")
    splice(False, "Wrapper", "none", "stack", "W8D", L=1, cap=1, ln=1, start=0, end=1, r=1, fb=0, role="c02_splice_fit", tier="rot2")
    splice(False, "Raw", "none", "stack", "B3D", L=3, cap=3, ln=3, start=2, end=3, r=1, fb=1, role="c02_splice_fit", tier="rot2")
    for i, bad in enumerate(BADS):
        badrange(bad, ROPS[i], "none", "heap" if i % 2 == 0 else "stack", "B3D")
        for j, op in enumerate(ROPS):
            if j != i:
                badrange(bad, op, "none", "heap", "B3D", tier="rot4")
    # class M/L concrete shapes and consumption (rotation)
    for elem in ("T12", "Q16", "D24D", "A32", "A64", "L160D"):
        for (ln, s, e, f, b) in ((3, 0, 1, 1, 0), (3, 1, 2, 0, 1), (3, 1, 3, 1, 1), (3, 0, 3, 0, 0), (2, 0, 2, 0, 1)):
            drain(False, "none", "heap", elem, L=3, cap=3, ln=ln, start=s, end=e, f=f, bk_=b, tier="rot8")
            splice(False, "Raw", "none", "stack" if ELEMS[elem][1] <= 8 else "reloc", elem, L=3, cap=4, ln=ln, start=s, end=e, f=f, bk_=b, r=1, tier="rot8")
            splice(False, "Raw", "none", "heap", elem, L=3, cap=3, ln=ln, start=s, end=e, f=f, bk_=b, r=2, tier="rot16")
    # thorough
    for elem in ("B1", "H2", "B3D", "W8", "W8D"):
        for b in ("heap", "stack", "reloc", "stackn"):
            drain(False, "none", b, elem, L=4 if ELEMS[elem][0] <= 3 else 3, fb=2, tier="thorough")
            drain(True, "none", b, elem, L=4 if ELEMS[elem][0] <= 3 else 3, fb=2, tier="thorough")
        for b in ("stack", "stackn"):
            for r in (0, 1, 2, 3):
                splice(False, "Raw", "none", b, elem, L=3, r=r, fb=1, tier="thorough")
                splice(False, "Wrapper", "none", b, elem, L=3, r=r, fb=1, tier="thorough")
                splice(True, "Wrapper", "none", b, elem, L=3, r=r, fb=1, tier="thorough")
        if elem in ("B3D", "W8D"):
            for (ln, s, e) in shapes(3):
                for r in ((0, 1, 2, 3) if elem == "B3D" else (1, 2)):
                    splice(False, "Raw", "none", "heap", elem, L=3, cap=ln, ln=ln, start=s, end=e, r=r, fb=1, tier="thorough")
                    splice(True, "Wrapper", "none", "reloc", elem, L=3, cap=ln, ln=ln, start=s, end=e, r=r, fb=1, tier="thorough")
    for tr in ("clone", "send", "call"):
        drain(False, tr, "heap", "B3D", L=3, tier="thorough")
        splice(False, "Raw", tr, "stack", "B3D", L=3, r=2, tier="thorough")
    for elem in ("T12", "D24D"):
        drain(False, "none", "stack", elem, L=3, fb=1, tier="thorough")
    for bad in BADS:
        for op in ROPS:
            for b in ("stack", "reloc"):
                badrange(bad, op, "none", b, "W8D", tier="thorough")
