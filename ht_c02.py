"""C02 harness instances: drain / splice / invalid ranges."""
from harnesses import *  # noqa
from ht_c01 import props_for


def P2(cap, ln, start, end, fb, r):
    return "c02::P2 { cap: %s, len: %s, start: %s, end: %s, fb: %d, r: %s }" % (dim(cap), dim(ln), dim(start), dim(end), fb, dim(r))


def tg(x):
    return x if isinstance(x, str) else "f%d" % x


def drain(typed, tr, b, elem, L=3, fb=2, tier="quick", cap=None, ln=None, start=None, end=None, also=()):
    cap = L if cap is None else cap
    ln = "s%d" % L if ln is None else ln
    start = "s%d" % L if start is None else start
    end = "s%d" % L if end is None else end
    name = "c02_drain_%s__%s_%s_%s__c%s_l%s_s%s_e%s_fb%d" % ("typed" if typed else "erased", tr, b, elem, tg(cap), tg(ln), tg(start), tg(end), fb)
    call = "c02::drain_h::<%s, %s, %s>(%s, %s)" % (TR[tr], bk(b, elem, cap), elem, P2(cap, ln, start, end, fb, 0), "true" if typed else "false")
    H(name, call, props_for(b, base=("C02",), also=also), tier=tier, unwind=unwind_for(elem, L + 1, not typed),
      dims=dict(cap=cap, len=ln, start=start, end=end, front_back_max=fb, elem=elem, backend=b, traits=tr, range_forms="all 9 (Bound,Bound) forms symbolic", shape_symbolic=isinstance(ln, str)),
      role="c02_drain_%s" % ("typed" if typed else "erased"))


def splice(typed, kind, tr, b, elem, L=3, fb=1, r=1, tier="quick", cap=None, ln=None, start=None, end=None, also=()):
    capv = (L + dmax(r)) if cap is None else cap
    ln = "s%d" % L if ln is None else ln
    start = "s%d" % L if start is None else start
    end = "s%d" % L if end is None else end
    name = "c02_splice_%s_%s__%s_%s_%s__c%s_l%s_s%s_e%s_fb%d_r%s" % ("typed" if typed else "erased", kind.lower(), tr, b, elem, tg(capv), tg(ln), tg(start), tg(end), fb, tg(r))
    call = "c02::splice_h::<%s, %s, %s>(%s, %s, c02::RepKind::%s)" % (TR[tr], bk(b, elem, capv), elem, P2(capv, ln, start, end, fb, r), "true" if typed else "false", kind)
    H(name, call, props_for(b, base=("C02",), also=also), tier=tier, unwind=unwind_for(elem, capv + 1, not typed),
      dims=dict(cap=capv, len=ln, start=start, end=end, front_back_max=fb, replacement=r, rep_kind=kind, elem=elem, backend=b, traits=tr, shape_symbolic=isinstance(ln, str)),
      role="c02_splice_%s_%s" % ("typed" if typed else "erased", kind.lower()))


def badrange(bad, op, tr, b, elem, L=3, tier="quick", also=()):
    name = "c02_badrange_%s_%s__%s_%s_%s__L%d" % (bad.lower(), op.lower(), tr, b, elem, L)
    call = "c02::bad_range::<%s, %s, %s>(%s, c02::BadRange::%s, c02::RangeOp::%s)" % (TR[tr], bk(b, elem, L), elem, P2(L, "s%d" % L, "s%d" % L, "s%d" % L, 0, 0), bad, op)
    H(name, call, props_for(b, base=("C02",), also=also), tier=tier, unwind=unwind_for(elem, L + 1), expect=[X_RANGE], must_panic=True,
      dims=dict(L=L, bad=bad, op=op, elem=elem, backend=b, traits=tr, shape_symbolic=True), role="c02_badrange_%s" % bad.lower())


BADS = ["StartAfterEnd", "EndAfterLen", "InclusiveMax", "ExcludedMaxStart"]
ROPS = ["Drain", "Splice", "TDrain", "TSplice"]


def define():
    drain(False, "none", "heap", "W8D")
    drain(False, "none", "stack", "B3D")
    drain(True, "none", "heap", "B3D")
    drain(False, "none", "heap", "Z0D", fb=1)
    drain(False, "none", "reloc", "W8D", fb=1)
    for r in (0, 1, 2):
        splice(False, "Raw" if r != 1 else "Wrapper", "none", "heap" if r != 2 else "stack", "W8D" if r != 0 else "B3D", r=r)
    splice(True, "Wrapper", "none", "stack", "B3D", r=1)
    splice(True, "Wrapper", "none", "heap", "W8D", r=2, fb=0)
    # result exactly fills a fixed capacity / heap must grow: concrete range, symbolic replacement length
    splice(False, "Raw", "none", "stack", "W8D", L=3, cap=3, ln=3, start=1, end=2, r="s1", fb=0)
    splice(False, "Wrapper", "none", "heap", "B3D", L=3, cap=3, ln=3, start=1, end=2, r="s2", fb=0)
    splice(False, "Raw", "none", "reloc", "B3D", L=3, cap=3, ln=3, start=0, end=1, r="s2", fb=1)
    for i, bad in enumerate(BADS):
        badrange(bad, ROPS[i], "none", "heap" if i % 2 == 0 else "stack", "W8D")
        for j, op in enumerate(ROPS):
            if j != i:
                badrange(bad, op, "none", "heap", "B3D", tier="rot4")
    # class M/L concrete shapes (rotation)
    for elem in ("T12", "Q16", "D24D", "A32", "A64", "L160D"):
        for (ln, s, e) in ((3, 0, 1), (3, 1, 2), (3, 1, 3), (3, 0, 3)):
            drain(False, "none", "heap", elem, L=3, cap=3, ln=ln, start=s, end=e, fb=1, tier="rot8")
            splice(False, "Raw", "none", "stack", elem, L=3, cap=4, ln=ln, start=s, end=e, fb=1, r=1, tier="rot8")
    # thorough
    for elem in ("B1", "H2", "B3D", "W8", "W8D"):
        for b in ("heap", "stack", "reloc", "stackn"):
            drain(False, "none", b, elem, L=4, fb=2, tier="thorough")
            drain(True, "none", b, elem, L=4, fb=2, tier="thorough")
            for r in (0, 1, 2, 3):
                splice(False, "Raw", "none", b, elem, L=3, r=r, fb=1, tier="thorough")
                splice(False, "Wrapper", "none", b, elem, L=3, r=r, fb=1, tier="thorough")
                splice(True, "Wrapper", "none", b, elem, L=3, r=r, fb=1, tier="thorough")
    for tr in ("clone", "send", "call"):
        drain(False, tr, "heap", "W8D", L=3, tier="thorough")
        splice(False, "Raw", tr, "heap", "W8D", L=3, r=2, tier="thorough")
    for elem in ("T12", "D24D"):
        drain(False, "none", "heap", elem, L=3, fb=1, tier="thorough")
        splice(False, "Raw", "none", "heap", elem, L=3, r=1, fb=1, tier="thorough")
    for bad in BADS:
        for op in ROPS:
            for b in ("stack", "reloc"):
                badrange(bad, op, "none", b, "W8D", tier="thorough")
